"""C17 - dilation never blocks shutdown; an incapable peer is reported, not awaited.

(a) Manager.stop has a row in every state it can be delivered in and ends in STOPPED with the
    one-shot `_stopped` fired, or in STOPPING with a disconnect requested on `_connection`; both
    connection_lost_* rows of STOPPING notify; notify_stopped runs at most once (table facts).
(b) Dilator.stop: no Manager => T.stoppedD() at once; else manager.stop() (the real machine) and
    stoppedD from the when_stopped() callback.
(c) Connector.stop / stop_everything: every listener stopListening()ed, every pending connector
    Deferred cancel()led, every pending connection disconnect()ed (ghost sets on self, loop
    invariants); attempts are tracked in _pending_connections (outbound: lemma; inbound: contract).
    What the Connector creates is tracked where stop() looks: the constructor starts with empty, distinct
    tracking sets; _schedule_connection records the Deferred it creates in _pending_connectors;
    _start_listener records the listening port in _listeners (lemma); build_protocol forgets nothing.
(d) incapable peer: Manager.got_wormhole_versions errors the main channel with
    OldPeerCannotDilateError; the Dilator hands every versions dict to the Manager in both orders
    of dilate() / got_wormhole_versions().
(e) SubchannelConnectorEndpoint.connect / SubchannelListenerEndpoint.listen wait on the main
    channel first; an errored main channel makes them errback before anything is opened."""
import time
import z3

from pyvc.contract import Contract
from pyvc.runner import ContractTask, FuncTask, ob
from pyvc.automat import AutomatSupport, Machine
from pyvc.interp import PyRaise
from pyvc.values import *   # noqa
from pyvc import values, source
from pyvc.models import uf
from .common import make_registry, install_trace_funcs, register_classes
from .c16 import _role
from . import c20      # hint namedtuples (values.NT_DEFS) and their union types

PROP = "C17"
MGR = "wormhole/_dilation/manager.py"
CON = "wormhole/_dilation/connector.py"
SUB = "wormhole/_dilation/subchannel.py"
M = f"{MGR}:Manager"
D = f"{MGR}:Dilator"
C = f"{CON}:Connector"


# ------------------------------------------------------------------ boundary models
def conn_disconnect(it, recv, meth, args, kwargs, fr):
    """connection.disconnect(): transport.loseConnection() has been requested (ghost flag)"""
    recv.fields["disconnect_requested"] = VBool(True)
    it.ctx.event("bcall", "ConnectionB", "disconnect", [recv], {})
    return NONE


def observer_when_fired(it, recv, meth, args, kwargs, fr):
    """OneShotObserver.when_fired(): a Deferred that errbacks iff the observer is (or gets) errored"""
    it.ctx.event("bcall", "ObserverB", "when_fired", [], {})
    return VObj("DeferredB", {"fails": recv.fields.get("will_error", VBool(False)), "observer": recv})


def yield_inline_callbacks(it, v, fr):
    """@inlineCallbacks: `yield d` resumes with d's result, or has d's failure raised at the yield;
    an exception leaving the generator errbacks the Deferred the caller got"""
    v = it.force(v)
    if isinstance(v, VObj) and v.cls == "DeferredB":
        if it.ctx.branch(v.fields["fails"].z, "deferred-fails"):
            raise PyRaise(VObj("OldPeerCannotDilateError", {"args": VTuple([])}))
        return NONE
    if not isinstance(v, (VObj, VOpaque)):
        return v            # a non-Deferred is sent straight back into the generator
    raise OutOfSubset("yield of something that is not a modelled Deferred")


def _selfobj(fr):
    f = fr
    while f is not None and f.selfobj is None:
        f = f.parent
    return f.selfobj if f is not None else None


def deferred_cancel(it, recv, meth, args, kwargs, fr):
    """d.cancel() on a pending connector Deferred: remembered in the Connector's ghost set"""
    so = _selfobj(fr)
    if so is not None and "_g_cancelled" in so.fields:
        g = so.fields["_g_cancelled"]
        g.z = z3.Store(g.z, recv.z, True)
    it.ctx.event("bcall", "deferred", "cancel", [recv], {})
    return NONE


EACH = {"stopListening": ("_g_stopped", "opaque[deferred]"), "disconnect": ("_g_disconnected", None)}


def comprehension_each(it, e, g, coll, fr):
    """[x.meth() for x in <set>]: one boundary call per element, in some order.  The set of
    receivers is added to the ghost set on self; the results are some list of that length"""
    import ast
    r = _ranked(it, e, g, coll, fr)
    if r is not None:
        return r
    r = _hints_for(it, e, g, coll, fr)
    if r is not None:
        return r
    if not (isinstance(coll, VSet) and isinstance(e.elt, ast.Call) and isinstance(e.elt.func, ast.Attribute)
            and isinstance(e.elt.func.value, ast.Name) and isinstance(g.target, ast.Name)
            and e.elt.func.value.id == g.target.id and not e.elt.args and not e.elt.keywords and not g.ifs):
        return None
    return _each(it, e, g, coll, fr)


def _hints_for(it, e, g, coll, fr):
    """[DirectTCPV1Hint(...) for addr in addresses]: one hint object per address (what the hints say is C20/C07's business)"""
    import ast
    from pyvc.interp import VSeqResult
    if not (isinstance(coll, VSeq) and isinstance(e.elt, ast.Call) and isinstance(e.elt.func, ast.Name)
            and e.elt.func.id.endswith("Hint") and not g.ifs):
        return None
    r = z3.Const(it.ctx.namer("hints"), z3.SeqSort(sort_of(parse_type("opaque[hint]"))))
    it.ctx.assume(z3.Length(r) == z3.Length(coll.z))
    return VSeqResult(r, parse_type("opaque[hint]"))


def _ranked(it, e, g, coll, fr):
    """[(xs.index(v), v) for v in <set of str>]: some list with one (rank, member) pair per member
    (index() cannot raise: the callers build the set as a subset of xs)"""
    import ast
    from pyvc.interp import VSeqResult
    if not (isinstance(coll, VSet) and coll.z is not None and coll.elem.kind == "str" and isinstance(e.elt, ast.Tuple)
            and len(e.elt.elts) == 2 and isinstance(e.elt.elts[1], ast.Name) and isinstance(g.target, ast.Name)
            and e.elt.elts[1].id == g.target.id and not g.ifs):
        return None
    ty = parse_type("tuple[int,str]")
    r = z3.Const(it.ctx.namer("ranked"), z3.SeqSort(sort_of(ty)))
    i = z3.Int("i!rk")
    s = z3.Const("s!rk", StringS)
    acc = sort_of(ty).accessor(0, 1)
    it.ctx.assume((z3.Length(r) == 0) == z3.Not(z3.Exists([s], coll.z[s])))
    it.ctx.assume(z3.ForAll([i], z3.Implies(z3.And(0 <= i, i < z3.Length(r)), z3.Select(coll.z, acc(r[i])))))
    return VSeqResult(r, ty)


def sorted_tuples(it, args, kw, fr):
    """sorted() of a list of (int, str) pairs: same length, same members (always comparable)"""
    v = it.force(args[0])
    if isinstance(v, VSeq) and repr(v.elem) == repr(parse_type("tuple[int,str]")) and not kw:
        r = z3.Const(it.ctx.namer("sorted"), v.z.sort())
        perm = z3.Function(it.ctx.namer("sort_perm"), IntS, IntS)
        j = z3.Int("j!so")
        L = z3.Length(v.z)
        it.ctx.assume(z3.Length(r) == L)
        it.ctx.assume(z3.ForAll([j], z3.Implies(z3.And(0 <= j, j < L), z3.And(0 <= perm(j), perm(j) < L, r[j] == v.z[perm(j)]))))
        return VSeq(r, v.elem)
    if isinstance(v, VSet) and v.z is not None and str(v.elem) == str(parse_type("json")):
        # sorted(set(direct.keys()), reverse=True): the priorities in some order, each one a key (they are numbers - C20 -
        # hence mutually comparable)
        r = z3.Const(it.ctx.namer("priorities"), z3.SeqSort(sort_of(v.elem)))
        i = z3.Int("i!pr")
        it.ctx.assume(z3.ForAll([i], z3.Implies(z3.And(0 <= i, i < z3.Length(r)), z3.Select(v.z, r[i]))))
        return VSeq(r, v.elem)
    raise OutOfSubset("sorted() of this value")


def _each(it, e, g, coll, fr):
    import ast
    meth = e.elt.func.attr
    if meth not in EACH or coll.z is None:
        return None
    gname, rty = EACH[meth]
    so = _selfobj(fr)
    if so is None or gname not in so.fields:
        return None
    gs = so.fields[gname]
    gs.z = z3.SetUnion(gs.z, coll.z)
    it.ctx.event("bcall", str(coll.elem), "each:" + meth, [VSet(coll.z, coll.elem)], {})
    if rty is None:
        return VSeqNone(it)
    from pyvc.interp import VSeqResult
    r = z3.Const(it.ctx.namer("each_results"), z3.SeqSort(sort_of(rty)))
    return VSeqResult(r, parse_type(rty))


def VSeqNone(it):
    """the (unused) list of None results of [c.disconnect() for c in ...]"""
    from pyvc.interp import VSeqResult
    return VSeqResult(z3.Const(it.ctx.namer("none_results"), z3.SeqSort(IntS)), parse_type("int"))


def set_when_next_empty(it, s, meth, args, kwargs, fr):
    """EmptyableSet.when_next_empty(): a Deferred for tests' synchronisation"""
    it.ctx.event("bcall", "EmptyableSet", "when_next_empty", [], {})
    return VObj("DeferredB", {"fails": VBool(False)})


def new_boundary(cls, fields=None, idsort=None):
    def h(it, klass, args, kwargs):
        o = VObj(cls, dict(fields(it) if fields else {}))
        if idsort:
            o.fields["__id"] = it.fresh(f"opaque[{idsort}]", cls + "_id")
        it.ctx.event("bcall", cls, "__init__", list(args), dict(kwargs))
        return o
    return h


def failure_model(it, args, kwargs):
    return VObj("Failure", {"value": args[0] if args else NONE})


def set_model(it, args, kwargs):
    """set(x), extended to JSON lists as used by _find_shared_versions: only the str elements matter for an
    intersection with a set of str; unhashable elements (list/dict) raise TypeError"""
    from pyvc.models import b_set
    from pyvc.values import J
    if args:
        v = it.force(args[0])
        if isinstance(v, VJson):
            v = it.json_narrow(v)
            if v is NONE or isinstance(v, (VInt, VBool, VReal)):
                it.raise_("TypeError", VStr("object is not iterable"))
            if isinstance(v, VSeq) and v.elem.kind == "json":
                i = z3.Int("i!hs")
                unhash = z3.Exists([i], z3.And(0 <= i, i < z3.Length(v.z), z3.Or(J.is_jlist(v.z[i]), J.is_jdict(v.z[i]))))
                if it.ctx.branch(unhash, "unhashable-element"):
                    it.raise_("TypeError", VStr("unhashable type"))
                s = z3.Const("s!js", StringS)
                return VSet(z3.Lambda([s], z3.Contains(v.z, z3.Unit(J.jstr(s)))), "str")
            s = z3.Const("s!js", StringS)
            if isinstance(v, VStr):       # a str iterates over its characters
                return VSet(z3.Lambda([s], z3.And(z3.Length(s) == 1, z3.Contains(v.z, s))), "str")
            from pyvc.interp import VJsonDict
            from pyvc.values import OJ
            if isinstance(v, VJsonDict):  # a dict iterates over its keys
                return VSet(z3.Lambda([s], OJ.is_present(z3.Select(J.d(v.z), s))), "str")
            raise OutOfSubset("set() of this JSON value")
        return b_set(it, [v], kwargs, None)
    return b_set(it, args, kwargs, None)


def role_hook(it, fr):
    i = it.ctx.choose([z3.BoolVal(True)] * 2, "role")
    c = fr.locals["self"].fields.get("_connector") or fr.locals["self"]
    c.fields["_role"] = [_role(it.reg, "LEADER"), _role(it.reg, "FOLLOWER")][i]


def once_hook(it, fr):
    mod = source.load_module(MGR)
    fr.locals["self"].fields["_did_dilate"].fields["_errtype"] = VClass("CanOnlyDilateOnceError",
                                                                        mod.classes["CanOnlyDilateOnceError"])


MANAGER_STOP_FIELDS = {"__state": "state", "_timer": "opt[obj[DelayedCallB]]", "_connection": "opt[obj[ConnectionB]]",
                       "_connector": "obj[ConnectorB]", "_stopped": "obj[ObserverB]"}
CONNECTOR_FIELDS = {"__state": "state", "_listeners": "set[opaque[port]]", "_pending_connectors": "set[opaque[deferred]]",
                    "_pending_connections": "set[opaque[conn]]", "_winning_connection": "opt[opaque[conn]]",
                    "_g_stopped": "set[opaque[port]]", "_g_cancelled": "set[opaque[deferred]]",
                    "_g_disconnected": "set[opaque[conn]]", "_g_created": "set[opaque[deferred]]"}
GHOSTS = ["_g_stopped", "_g_cancelled", "_g_disconnected"]
# ghost class invariant: every Deferred the Connector has created for an outbound attempt (deferLater) is tracked
CREATED_TRACKED = "self._g_created <= self._pending_connectors"
CONNECTOR_ATTRS = {"_dilation_key": "bytes", "_transit_relay_location": "opt[str]", "_manager": "obj[ManagerB]",
                   "_reactor": "obj[ReactorB]", "_eventual_queue": "obj[EventualQueueB]", "_no_listen": "bool",
                   "_tor": "opt[obj[TorB]]", "_timing": "opt[obj[TimingB]]", "_side": "str", "_role": "opaque[role]"}


def regf(exclude=()):
    reg = make_registry()
    install_trace_funcs(reg)
    register_classes(reg, ["wormhole/errors.py", MGR, CON, SUB])
    reg.automat = AutomatSupport()
    for c in CONTRACTS + ASSUMED:
        if c.target not in exclude:
            reg.contracts[c.target] = c
    reg.role_objs = {}
    em = reg.ext_models
    em["global:wormhole/_dilation/roles.py:LEADER"] = lambda it: _role(it.reg, "LEADER")
    em["global:wormhole/_dilation/roles.py:FOLLOWER"] = lambda it: _role(it.reg, "FOLLOWER")
    em["new:Connector"] = new_boundary("ConnectorB")
    em["new:Manager"] = new_boundary("ManagerB", lambda it: {"_api": VObj("DilatedWormholeB")})
    em["new:DilatedConnectionProtocol"] = new_boundary("ProtocolB", None, "conn")
    em["new:SubChannel"] = new_boundary("SubChannelB")
    em["twisted.python.failure.Failure"] = failure_model
    em["twisted.internet.defer.DeferredList"] = lambda it, args, kwargs: VObj("DeferredB", {"fails": VBool(False)})
    em["builtins.set"] = set_model
    em["comprehension"] = comprehension_each
    em["sorted"] = sorted_tuples
    em["yield"] = yield_inline_callbacks
    reg.func_models["wormhole/util.py:dict_to_bytes"] = lambda it, args, kwargs, fr: it.fresh("bytes", "json_bytes")
    reg.func_models[f"{CON}:build_noise"] = lambda it, args, kwargs, fr: VObj("NoiseB")
    reg.func_models[f"{MGR}:make_side"] = lambda it, args, kwargs, fr: it.fresh("str", "side")
    reg.drop_calls = list(reg.drop_calls) + ["self._maybe_send_status", "hint_status.append"]
    reg.class_fields["ConnectionB"] = {"disconnect_requested": "bool"}
    reg.class_fields["ObserverB"] = {"will_error": "bool"}
    reg.class_fields["Manager"] = dict(MANAGER_STOP_FIELDS)
    reg.class_fields["ManagerB"] = {"_main_channel": "obj[ObserverB]", "_host_addr": "obj[AddrB]"}
    reg.class_fields["Once"] = {"_called": "bool"}
    reg.class_fields["Dilator"] = {"_manager": "opt[obj[Manager]]", "_T": "obj[TerminatorB]"}
    reg.boundary_returns["FactoryB.buildProtocol"] = "obj[AppProtocolB]"
    reg.class_fields["Connector"] = dict(CONNECTOR_FIELDS, _dilation_key="bytes", _eventual_queue="obj[EventualQueueB]",
                                         _reactor="obj[ReactorB]", _manager="obj[ManagerB]")
    reg.boundary["ConnectionB.disconnect"] = conn_disconnect
    reg.boundary["ObserverB.when_fired"] = observer_when_fired
    reg.boundary["deferred.cancel"] = deferred_cancel
    reg.boundary["set.when_next_empty"] = set_when_next_empty
    reg.boundary_returns["EndpointB.connect"] = "obj[DeferredB2]"
    reg.boundary_returns["conn.when_disconnected"] = "obj[DeferredB2]"
    sf = reg.spec_funcs

    def defer_later(it, args, kwargs):
        """twisted.internet.task.deferLater(reactor, delay, f, *a): a new Deferred (recorded: what the Connector creates)"""
        d = it.fresh("opaque[deferred]", "delayed_connect")
        it.ctx.event("bcall", "task", "deferLater", list(args), dict(kwargs))
        it.ctx.event("created", d)
        so = it.root_frame.selfobj if it.root_frame is not None else None
        if so is not None and "_g_created" in so.fields:
            g = so.fields["_g_created"]
            g.z = z3.Store(g.z, d.z, True)
        return d

    em["twisted.internet.task.deferLater"] = defer_later

    def hints_by_priority(it, args, kwargs):
        """collections.defaultdict(list) in _use_hints: an empty map priority -> list of hints, missing keys read as []"""
        kt, vt = parse_type("json"), parse_type(f"seq[{c20.HINT}]")
        m_ = VMap(z3.K(sort_of(kt), z3.BoolVal(False)), z3.K(sort_of(kt), z3.Empty(sort_of(vt))), kt, vt)
        m_.default_empty = True
        return m_

    em["collections.defaultdict"] = hints_by_priority
    em["new:DilationHint"] = new_boundary("DilationHintB", None, "status")
    em["twisted.internet.endpoints.serverFromString"] = lambda it, args, kwargs: VObj("ServerEndpointB")
    reg.boundary_returns["ServerEndpointB.listen"] = "obj[DeferredB2]"
    reg.boundary_returns["port.getHost"] = "obj[HostB]"
    reg.class_fields["HostB"] = {"port": "int"}
    reg.func_models["wormhole/_hints.py:endpoint_from_hint_obj"] = lambda it, args, kwargs, fr: VObj("EndpointB")
    reg.func_models["wormhole/_hints.py:describe_hint_obj"] = lambda it, args, kwargs, fr: it.fresh("str", "description")
    sf["ncalls"] = lambda it, suffix: VInt(sum(1 for e in it.ctx.trace if e[0] == "call" and e[1][0].endswith(it.concrete(suffix))))
    sf["news_of"] = lambda it, cls: VInt(sum(1 for e in it.ctx.trace if e[0] == "bcall" and e[1][0] == it.concrete(cls)
                                             and e[1][1] == "__init__"))
    sf["n_created"] = lambda it: VInt(sum(1 for e in it.ctx.trace if e[0] == "created"))
    sf["created"] = lambda it, k: [e[1][0] for e in it.ctx.trace if e[0] == "created"][it.concrete(k)]

    def is_method_of(it, f, obj, name):
        f = it.force(f)
        return VBool(isinstance(f, VFunc) and f.bound is it.force(obj) and f.fdef.qualname.split(".")[-1] == it.concrete(name))

    sf["is_method_of"] = is_method_of

    def is_failure_of(it, f, clsname):
        f = it.force(f)
        v = it.force(f.fields.get("value", NONE)) if isinstance(f, VObj) and f.cls == "Failure" else NONE
        return VBool(isinstance(v, VObj) and it.reg.is_subclass(v.cls, it.concrete(clsname)))

    sf["is_failure_of"] = is_failure_of
    def shares_version(it, mine, theirs):
        """some str is a member of our list and of the peer's 'can-dilate' value (a list: an element; a str: one of
        its characters; a dict: a key)"""
        from pyvc.values import J, OJ
        mz, tz = it.force(mine).z, to_json(it.force(theirs))
        s = z3.Const("s!sv", StringS)
        member = z3.Or(z3.And(J.is_jlist(tz), z3.Contains(J.l(tz), z3.Unit(J.jstr(s)))),
                       z3.And(J.is_jstr(tz), z3.Length(s) == 1, z3.Contains(J.s(tz), s)),
                       z3.And(J.is_jdict(tz), OJ.is_present(z3.Select(J.d(tz), s))))
        return VBool(z3.Exists([s], z3.And(z3.Contains(mz, z3.Unit(s)), member)))

    sf["shares_version"] = shares_version

    def has_unhashable_member(it, v):
        from pyvc.values import J
        z = to_json(it.force(v))
        i = z3.Int("i!hu")
        return VBool(z3.And(J.is_jlist(z), z3.Exists([i], z3.And(0 <= i, i < z3.Length(J.l(z)),
                                                                 z3.Or(J.is_jlist(J.l(z)[i]), J.is_jdict(J.l(z)[i]))))))

    sf["has_unhashable_member"] = has_unhashable_member

    def can_dilate(it, versions):
        """their_wormhole_versions.get('can-dilate', [])"""
        from pyvc.values import J, OJ
        d = J.d(to_json(it.force(versions)))
        ent = z3.Select(d, z3.StringVal("can-dilate"))
        return VJson(z3.If(OJ.is_present(ent), OJ.v(ent), J.jlist(z3.Empty(z3.SeqSort(J)))))

    sf["can_dilate"] = can_dilate
    return reg


def regf_ctor():
    """the real Connector constructor body runs (no `new:Connector` boundary): observer.EmptyableSet(...) is an empty set
    (its when_next_empty()/discard() are the boundary models above), _hints.parse_hint_argv is some hint or None"""
    reg = regf()
    reg.ext_models.pop("new:Connector", None)
    reg.ext_models["new:EmptyableSet"] = lambda it, klass, args, kwargs: VSet(None, None)
    reg.ext_models["new:DebugTiming"] = new_boundary("TimingB")
    reg.func_models["wormhole/_hints.py:parse_hint_argv"] = lambda it, args, kwargs, fr: it.fresh(c20.OPTHINT, "relay_hint")
    reg.class_fields["Connector"] = dict(CONNECTOR_ATTRS)
    return reg


def new_connector_real(it, klass, args, kwargs):
    """Connector(...): the real attrs constructor and __attrs_post_init__, then the ghost sets (nothing created / stopped /
    cancelled / disconnected yet)"""
    h = it.reg.ext_models.pop("new:Connector")
    try:
        o = it.instantiate(klass, args, kwargs, None)
    finally:
        it.reg.ext_models["new:Connector"] = h
    it.reg.automat.init_state(it, o, klass.cdef)        # Automat: a new machine is in its initial state
    for g, ty in CONNECTOR_FIELDS.items():
        cur = o.fields.get(g)
        if g.startswith("_g_") or (isinstance(cur, VSet) and cur.z is None):     # ghost / still untyped empty set()
            t = parse_type(ty)
            o.fields[g] = VSet(z3.K(sort_of(t.args[0]), z3.BoolVal(False)), t.args[0])
    it.ctx.event("bcall", "Connector", "__new__", list(args), dict(kwargs))
    return o


def regf_mgr_ctor():
    reg = regf_ctor()
    reg.contracts.pop(f"{C}.__attrs_post_init__")        # the constructor body itself runs
    reg.ext_models["new:Connector"] = new_connector_real
    reg.class_fields["Manager"] = dict(reg.contracts[f"{M}._start_connecting"].self_fields)
    reg.class_fields["Connector"] = dict(CONNECTOR_FIELDS, **CONNECTOR_ATTRS)
    return reg


def regf_start():
    reg = regf()
    reg.func_models["wormhole/ipaddrs.py:find_addresses"] = lambda it, args, kwargs, fr: it.fresh("seq[str]", "addresses")
    return reg


def regf_inline(*names):
    def f():
        return regf(exclude=names)
    return f


STOP_REQ = ["implies(in_state({m}, 'CONNECTED'), {m}._connection is not None)",
            "implies(in_state({m}, 'ABANDONING'), {m}._connection is not None and {m}._connection.disconnect_requested)"]

ASSUMED = [Contract("wormhole/_hints.py:encode_hint", params={"h": "opaque[hint]"}, returns="json",
                    note="assumed: returns some JSON value for a hint object (what it encodes is C20's business)")]

CONTRACTS = [
    # ---------------------------------------------------------------- (a) Manager.stop
    Contract(f"{M}.stop", props=[PROP], params={}, self_fields=dict(MANAGER_STOP_FIELDS),
             modifies=["__state", "_timer"],
             requires=["not in_state(self, 'STOPPING', 'STOPPED')"] + [r.format(m="self") for r in STOP_REQ],
             ensures=[("stopped-or-stopping", "in_state(self, 'STOPPED', 'STOPPING')"),
                      ("stopped-fires-the-notification-once", "implies(in_state(self, 'STOPPED'), bcalls('fire') == 1 and "
                                                              "bcall_arg('fire', 0, 0) is None)"),
                      ("stopping-has-asked-the-connection-to-close",
                       "implies(in_state(self, 'STOPPING'), self._connection is not None and "
                       "self._connection.disconnect_requested and bcalls('fire') == 0)"),
                      ("connecting-stops-its-connector", "bcalls('stop') == ite(old(in_state(self, 'CONNECTING')), 1, 0)"),
                      ("waits-only-for-a-live-connection", "in_state(self, 'STOPPING') == old(in_state(self, 'CONNECTED', 'ABANDONING'))")],
             note="stop() is delivered once (Terminator enters S_stoppingD once; Dilator.stop's TODO), hence not in "
                  "STOPPING/STOPPED; a missing row in any other state is the failing obligation nodom:Manager.stop@state"),
    Contract(f"{M}.connection_lost_leader", props=[PROP], params={}, self_fields={"__state": "state", "_stopped": "obj[ObserverB]"},
             modifies=["__state"], requires=["in_state(self, 'STOPPING')"],
             ensures=[("stopped-and-notified", "in_state(self, 'STOPPED') and bcalls('fire') == 1")]),
    Contract(f"{M}.connection_lost_follower", props=[PROP], params={}, self_fields={"__state": "state", "_stopped": "obj[ObserverB]"},
             modifies=["__state"], requires=["in_state(self, 'STOPPING')"],
             ensures=[("stopped-and-notified", "in_state(self, 'STOPPED') and bcalls('fire') == 1")]),
    Contract(f"{M}.rx_RECONNECT", props=[PROP], params={}, self_fields=dict(MANAGER_STOP_FIELDS), modifies=["__state", "_timer"],
             requires=["in_state(self, 'CONNECTED')", "self._connection is not None"],
             ensures=[("abandoning-has-asked-the-connection-to-close",
                       "in_state(self, 'ABANDONING') and self._connection.disconnect_requested")],
             note="establishes the ABANDONING precondition of stop"),
    Contract(f"{M}.notify_stopped", props=[PROP], params={}, self_fields={"_stopped": "obj[ObserverB]"},
             effects=[("fire", ["None"])]),

    # ---------------------------------------------------------------- (b) Dilator.stop
    Contract(f"{D}.stop", props=[PROP], params={}, self_fields={"_manager": "opt[obj[Manager]]", "_T": "obj[TerminatorB]"},
             requires=["implies(self._manager is not None, not in_state(self._manager, 'STOPPING', 'STOPPED'))"] +
                      [f"implies(self._manager is not None, {r.format(m='self._manager')})" for r in STOP_REQ],
             ensures=[("no-manager-stops-at-once", "implies(self._manager is None, bcalls('stoppedD') == 1 and len(bcall_names()) == 1)"),
                      ("manager-is-stopped", "implies(self._manager is not None, in_state(self._manager, 'STOPPED', 'STOPPING') "
                                             "and input_calls('stop') == 1)"),
                      ("waits-for-when-stopped", "implies(self._manager is not None, bcalls('when_fired') == 1 and "
                                                 "bcalls('addCallback') == 1 and bcalls('stoppedD') == 0)")]),
    Contract("lemma:dilator_stop_callback", props=[PROP], source_module=MGR, params={"d": "obj[Dilator]"},
             source_text="""
             def dilator_stop_callback(d):
                 d.stop()
                 cb = bcall_arg("addCallback", 0, 0)     # what Dilator.stop attached to manager.when_stopped()
                 n = bcalls("stoppedD")
                 cb(None)                                # the one-shot _stopped fires
                 return bcalls("stoppedD") - n
             """,
             requires=["d._manager is not None", "not in_state(d._manager, 'STOPPING', 'STOPPED')"] +
                      [r.format(m="d._manager") for r in STOP_REQ],
             ensures=[("stoppedD-when-the-manager-has-stopped", "result == 1")]),

    # ---------------------------------------------------------------- (c) Connector
    Contract(f"{C}.__attrs_post_init__", props=[PROP], params={}, self_fields=dict(CONNECTOR_ATTRS),
             modifies=["_timing"],
             ensures=[("class-invariant-established--nothing-tracked-yet",
                       "not self._listeners and not self._pending_connectors and not self._pending_connections and "
                       "not self._contenders and self._winning_connection is None"),
                      ("tracks-in-the-fields-stop-shuts-down",
                       "isinstance(self._listeners, set) and isinstance(self._pending_connectors, set) and "
                       "isinstance(self._pending_connections, set)"),
                      ("relay-list-only-from-the-configured-location",
                       "(len(self._transit_relays) == 0) == (not self._transit_relay_location)")],
             note="the constructor body the Manager runs in _start_connecting: every tracking field the stop_* contracts read "
                  "starts empty, each in its own container (frame.no-aliasing), no winner"),
    Contract(f"{C}.start", props=[PROP], params={},
             self_fields=dict(CONNECTOR_FIELDS, _tor="opt[obj[TorB]]", _reactor="obj[ReactorB]", _no_listen="bool",
                              _manager="obj[ManagerB]", _transit_relays="seq[nt[RelayV1Hint]]"),
             modifies=["_pending_connectors", "_g_created"], requires=[CREATED_TRACKED, "in_state(self, 'connecting')"],
             ensures=[("every-deferred-created-so-far-is-tracked", CREATED_TRACKED),
                      ("nothing-tracked-is-forgotten", "old(self._pending_connectors) <= self._pending_connectors"),
                      ("still-connecting", "in_state(self, 'connecting')")],
             internal_ensures=[("listens-unless-told-not-to", "bcalls('listen') == ite(not self._no_listen and not self._tor, 1, 0)")],
             note="_use_hints and _schedule_connection by contract; _start_listener / _publish_hints / _get_listener_addresses "
                  "inlined (the listen Deferred is still pending here: lemma listening_port_tracked is about its callback)"),
    Contract(f"{M}._start_connecting", props=[PROP], params={},
             self_fields={"_my_role": "opt[opaque[role]]", "_dilation_key": "opt[bytes]", "_transit_relay_location": "opt[str]",
                          "_reactor": "obj[ReactorB]", "_eventual_queue": "obj[EventualQueueB]", "_no_listen": "bool",
                          "_tor": "opt[obj[TorB]]", "_timing": "opt[obj[TimingB]]", "_my_side": "str",
                          "_debug_stall_connector": "bool", "_connector": "opt[obj[Connector]]"},
             modifies=["_connector"],
             raises_exactly={"AssertionError": "self._my_role is None or self._dilation_key is None"},
             ensures=[("a-new-connector-with-nothing-tracked-but-what-it-created",
                       "self._connector is not None and self._connector is not old(self._connector) and "
                       "self._connector._g_created <= self._connector._pending_connectors and "
                       "not self._connector._pending_connections and self._connector._winning_connection is None"),
                      ("it-reports-to-this-manager-and-can-be-stopped",
                       "self._connector._manager is self and in_state(self._connector, 'connecting')"),
                      ("started-unless-the-test-hook-stalls-it",
                       "ncalls('Connector.start') == ite(self._debug_stall_connector, 0, 1)")],
             note="the real Connector(...) constructor body runs here (attrs fields from the call, then __attrs_post_init__); "
                  "Connector.start by contract; the new Connector's ghost sets start empty"),
    Contract(f"{C}._use_hints", props=[PROP], params={"hints": f"seq[{c20.SOMEHINT}]"},
             self_fields=dict(CONNECTOR_FIELDS, _tor="opt[obj[TorB]]", _reactor="obj[ReactorB]", _no_listen="bool",
                              _manager="obj[ManagerB]"),
             modifies=["_pending_connectors", "_g_created"], requires=[CREATED_TRACKED],
             ensures=[("every-deferred-created-so-far-is-tracked", CREATED_TRACKED),
                      ("nothing-tracked-is-forgotten", "old(self._pending_connectors) <= self._pending_connectors")],
             loops={k: {"header": h_, "modifies": [("self", "_pending_connectors"), ("self", "_g_created")],
                        "retype": {"relays": "seq[nt[RelayV1Hint]]", "hint_status": "seq[opaque[status]]"},
                        "invariant": [CREATED_TRACKED, "at_entry(self._pending_connectors) <= self._pending_connectors"]}
                    for k, h_ in enumerate(["for h in hints", "for p in priorities", "for h in direct[p]", "for r in relays",
                                            "for h in r.hints"])},
             note="outbound attempts are only ever created through _schedule_connection (by contract): whatever the hints, "
                  "every Deferred created is tracked and nothing tracked before is dropped"),
    Contract(f"{C}._schedule_connection", props=[PROP], params={"delay": "real", "h": c20.HINT, "is_relay": "bool"},
             self_fields=dict(CONNECTOR_FIELDS, _tor="opt[obj[TorB]]", _reactor="obj[ReactorB]"),
             modifies=["_pending_connectors", "_g_created"], requires=[CREATED_TRACKED],
             ensures=[("every-deferred-created-so-far-is-tracked", CREATED_TRACKED),
                      ("nothing-tracked-is-forgotten", "old(self._pending_connectors) <= self._pending_connectors")],
             internal_ensures=[
                      ("the-one-deferred-it-creates-is-tracked-for-cancellation",
                       "n_created() == 1 and created(0) in self._pending_connectors and created(0) in self._g_created"),
                      ("the-delayed-call-is-this-connectors-connect",
                       "bcalls('deferLater') == 1 and is_method_of(bcall_arg('deferLater', 0, 2), self, '_connect') and "
                       "bcall_arg('deferLater', 0, 1) == delay and bcall_arg('deferLater', 0, 5) == is_relay")],
             note="ghost: every Deferred the Connector creates for an outbound attempt (event `created`) is in "
                  "_pending_connectors, which stop_pending_connectors cancels; what runs later is _connect (lemma "
                  "outbound_attempt_tracked)"),
    Contract(f"{C}.build_protocol", props=[PROP], params={"addr": "opaque[address]", "description": "str"},
             self_fields=dict(CONNECTOR_FIELDS, _dilation_key="bytes", _eventual_queue="obj[EventualQueueB]", _role="opaque[role]"),
             pre_hook=role_hook, modifies=["_pending_connections"], returns="obj[ProtocolB]",
             ensures=[("nothing-tracked-is-forgotten", "old(self._pending_connections) <= self._pending_connections"),("builds-exactly-one-protocol-that-reports-back-to-this-connector",
                       "news_of('ProtocolB') == 1 and bcall_arg('__init__', 0, 3) is self and bcall_arg('__init__', 0, 1) is self._role "
                       "and bcall_arg('__init__', 0, 2) == description"),
                      ("keyed-with-the-dilation-key", "bcalls('set_psks') == 1 and bcall_arg('set_psks', 0, 0) == self._dilation_key"),
                      ("one-side-initiates", "bcalls('set_as_initiator') + bcalls('set_as_responder') == 1")],
             note="frame: build_protocol touches no tracking field except that it may add to _pending_connections (it does not "
                  "today: tracking is done by _connect - lemma outbound_attempt_tracked - and missing for inbound protocols, the "
                  "open finding on InboundConnectionFactory.buildProtocol, which is checked with build_protocol inlined)"),
    Contract("lemma:listening_port_tracked", props=[PROP], source_module=CON,
             params={"c": "obj[Connector]", "addresses": "seq[str]", "lp": "opaque[port]"},
             source_text="""
             def listening_port_tracked(c, addresses, lp):
                 c._start_listener(addresses)
                 listening = bcall_arg("addCallback", 0, 0)   # what _start_listener attached to ep.listen(factory)
                 listening(lp)                                 # the port is open
                 return lp in c._listeners
             """,
             requires=["in_state(c, 'connecting')"],
             ensures=[("tracked-once-listening", "result"),
                      ("one-listen-with-an-inbound-factory-of-this-connector",
                       "bcalls('listen') == 1 and bcall_arg('listen', 0, 0)._connector is c"),
                      ("still-connecting", "in_state(c, 'connecting')")],
             note="the IListeningPort the Connector opens is recorded in _listeners (which stop_listeners stops) before anything "
                  "else is done with it.  requires: _listening runs while the Connector is connecting - twisted's "
                  "TCP4ServerEndpoint.listen() fires synchronously, i.e. inside Connector.start()"),
    Contract(f"{C}.stop_listeners", props=[PROP], params={}, self_fields=dict(CONNECTOR_FIELDS),
             modifies=["_listeners", "_g_stopped"],
             ensures=[("every-listener-stopped", "old(self._listeners) <= self._g_stopped"),
                      ("forgotten", "not self._listeners")]),
    Contract(f"{C}.stop_pending_connectors", props=[PROP], params={}, self_fields=dict(CONNECTOR_FIELDS),
             modifies=["_g_cancelled"],
             ensures=[("every-pending-connector-cancelled", "self._pending_connectors <= self._g_cancelled")],
             loops={0: {"header": "for d in self._pending_connectors", "modifies": [("self", "_g_cancelled")],
                        "invariant": ["_done <= self._g_cancelled", "self._pending_connectors == at_entry(self._pending_connectors)"]}}),
    Contract(f"{C}.stop_pending_connections", props=[PROP], params={}, self_fields=dict(CONNECTOR_FIELDS),
             modifies=["_g_disconnected"], returns="obj[DeferredB]",
             ensures=[("every-pending-connection-disconnected", "self._pending_connections <= self._g_disconnected")]),
    Contract(f"{C}.stop_everything", props=[PROP], params={}, self_fields=dict(CONNECTOR_FIELDS),
             modifies=["_listeners", "_pending_connectors", "_pending_connections", "_winning_connection"] + GHOSTS,
             ensures=[("every-listener-stopped", "old(self._listeners) <= self._g_stopped"),
                      ("every-pending-connector-cancelled", "old(self._pending_connectors) <= self._g_cancelled"),
                      ("every-pending-connection-disconnected", "old(self._pending_connections) <= self._g_disconnected"),
                      ("references-dropped", "not self._listeners and not self._pending_connectors and "
                                             "not self._pending_connections and self._winning_connection is None")],
             note="the three helpers by contract (modular); _g_* are ghost sets of receivers of stopListening/cancel/disconnect"),
    Contract(f"{C}.stop", props=[PROP], params={}, self_fields=dict(CONNECTOR_FIELDS),
             modifies=["__state", "_listeners", "_pending_connectors", "_pending_connections", "_winning_connection"] + GHOSTS,
             requires=["not in_state(self, 'stopped')", CREATED_TRACKED],
             ensures=[("stopped", "in_state(self, 'stopped')"),
                      ("every-deferred-the-connector-created-is-cancelled", "old(self._g_created) <= self._g_cancelled"),
                      ("every-listener-stopped", "old(self._listeners) <= self._g_stopped"),
                      ("every-pending-connector-cancelled", "old(self._pending_connectors) <= self._g_cancelled"),
                      ("every-pending-connection-disconnected", "old(self._pending_connections) <= self._g_disconnected")],
             note="the Manager stops a Connector once (stop_connecting, then forgets or replaces it)"),
    Contract(f"{C}.add_candidate", props=[PROP], params={"c": "opaque[conn]"},
             self_fields=dict(CONNECTOR_FIELDS, _contenders="set[opaque[conn]]", _role="opaque[role]",
                              _eventual_queue="obj[EventualQueueB]"),
             requires=["in_state(self, 'connecting')"], modifies=["_contenders"],
             ensures=[("still-connecting", "in_state(self, 'connecting')"),
                      ("candidate-stays-tracked-until-it-wins", "self._pending_connections == old(self._pending_connections)")],
             note="a connection that passed its handshake (a contender) is still a pending attempt: close() arriving before "
                  "the eventual-send of accept() must still find it in _pending_connections"),
    Contract("lemma:outbound_attempt_tracked", props=[PROP], source_module=CON,
             params={"c": "obj[Connector]", "ep": "obj[EndpointB]", "p": "opaque[conn]"},
             source_text="""
             def outbound_attempt_tracked(c, ep, p):
                 c._connect(ep, "desc", False)
                 connected = bcall_arg("addCallback", 0, 0)   # what _connect attached to ep.connect(factory)
                 connected(p)                                  # the TCP connection is up, protocol p built
                 return p in c._pending_connections
             """,
             ensures=[("tracked-once-connected", "result"),
                      ("untracked-when-it-disconnects", "bcalls('when_disconnected') == 1 and bcalls('addCallback') == 2")]),
    Contract(f"{CON}:InboundConnectionFactory.buildProtocol", props=[PROP], params={"addr": "opaque[address]"},
             self_fields={"_connector": "obj[Connector]"}, pre_hook=role_hook, returns="obj[ProtocolB]",
             ensures=[("inbound-attempt-is-tracked", "result in self._connector._pending_connections")],
             replay={"driver": "c17_replay:inbound_attempt_tracked"},
             note="statement: 'listeners, pending attempts and the active connection are shut down'; stop_everything can only "
                  "disconnect what _pending_connections holds, and nothing else ever sees an inbound protocol before its KCM"),

    # ---------------------------------------------------------------- (d) incapable peer
    Contract(f"{MGR}:_find_shared_versions", props=[PROP], params={"my_versions": "seq[str]", "their_versions": "json"},
             returns="opt[str]",
             raises={"TypeError": "not isinstance(their_versions, (list, str, dict)) or has_unhashable_member(their_versions)"},
             ensures=[("none-iff-nothing-shared", "(result is None) == (not shares_version(my_versions, their_versions))"),
                      ("a-shared-one", "implies(result is not None, result in my_versions)")],
             note="TypeError: the peer's 'can-dilate' is not iterable, or a list with an unhashable element"),
    Contract(f"{M}.got_wormhole_versions", props=[PROP], params={"their_wormhole_versions": "json"},
             self_fields={"__state": "state", "_acceptable_versions": "seq[str]", "_dilation_version": "opt[str]",
                          "_main_channel": "obj[ObserverB]", "_my_side": "str", "_next_dilation_generation": "int",
                          "_S": "obj[SendB]"},
             modifies=["__state", "_dilation_version", "_next_dilation_generation"],
             requires=["isinstance(their_wormhole_versions, dict)", "in_state(self, 'WAITING')"],
             raises={"TypeError": None},
             ensures=[("incapable-peer-is-reported",
                       "implies(not shares_version(self._acceptable_versions, can_dilate(their_wormhole_versions)), "
                       "bcalls('error') == 1 and is_failure_of(bcall_arg('error', 0, 0), 'OldPeerCannotDilateError'))"),
                      ("capable-peer-is-not-failed", "implies(self._dilation_version is not None and self._dilation_version != '', "
                                                     "bcalls('error') == 0)"),
                      ("please-sent", "in_state(self, 'WANTING') and bcalls('send') == 1")],
             note="TypeError: a 'can-dilate' value from the peer that is not a list of hashables"),
    Contract(f"{D}.got_wormhole_versions", props=[PROP], params={"their_wormhole_versions": "json"},
             self_fields={"_manager": "opt[obj[ManagerB]]", "_pending_wormhole_versions": "opt[json]"},
             modifies=["_pending_wormhole_versions"], requires=["isinstance(their_wormhole_versions, dict)"],
             ensures=[("manager-receives-them", "implies(self._manager is not None, bcalls('got_wormhole_versions') == 1 and "
                                                "bcall_arg('got_wormhole_versions', 0, 0) == their_wormhole_versions)"),
                      ("kept-for-dilate", "implies(self._manager is None, self._pending_wormhole_versions is not None and "
                                          "self._pending_wormhole_versions == their_wormhole_versions and len(bcall_names()) == 0)")]),
    Contract(f"{D}.dilate", props=[PROP],
             params={"transit_relay_location": "opt[str]", "no_listen": "bool", "wormhole_status": "opt[opaque[status]]",
                     "status_update": "opt[opaque[status_cb]]", "ping_interval": "opt[real]",
                     "expected_subprotocols": "opt[opaque[subprotocols]]"},
             self_fields={"_manager": "opt[obj[ManagerB]]", "_pending_dilation_key": "opt[bytes]",
                          "_pending_wormhole_versions": "opt[json]", "_pending_inbound_dilate_messages": "seq[bytes]",
                          "_did_dilate": "obj[Once]", "_S": "obj[SendB]", "_reactor": "obj[ReactorB]",
                          "_eventual_queue": "obj[EventualQueueB]", "_cooperator": "obj[CooperatorB]",
                          "_acceptable_versions": "seq[str]"},
             pre_hook=once_hook, modifies=["_manager", "_did_dilate", "_pending_inbound_dilate_messages"],
             requires=["implies(self._pending_wormhole_versions is not None, isinstance(self._pending_wormhole_versions, dict))"],
             raises_exactly={"CanOnlyDilateOnceError": "self._did_dilate._called"},
             ensures=[("versions-that-arrived-first-reach-the-manager",
                       "implies(old(self._manager) is None and old(self._pending_wormhole_versions) is not None, "
                       "bcalls('got_wormhole_versions') == 1 and "
                       "bcall_arg('got_wormhole_versions', 0, 0) == old(self._pending_wormhole_versions))"),
                      ("key-that-arrived-first-reaches-the-manager",
                       "implies(old(self._manager) is None and old(self._pending_dilation_key) is not None, "
                       "bcalls('got_dilation_key') == 1 and bcall_arg('got_dilation_key', 0, 0) == old(self._pending_dilation_key))"),
                      ("a-manager-exists", "self._manager is not None")],
             loops={0: {"header": "self._pending_inbound_dilate_messages", "invariant": ["self._manager is not None"]}},
             replay={"driver": "c17_replay:dilate_forwards_versions"},
             note="both orders: got_wormhole_versions() first (kept, then handed over here) or dilate() first "
                  "(Dilator.got_wormhole_versions forwards)"),

    # ---------------------------------------------------------------- (e) subchannel endpoints
    Contract(f"{SUB}:SubchannelConnectorEndpoint.connect", props=[PROP], params={"protocolFactory": "obj[FactoryB]"},
             self_fields={"_subprotocol": "str", "_manager": "obj[ManagerB]", "_host_addr": "obj[AddrB]",
                          "_eventual_queue": "obj[EventualQueueB]"},
             raises_exactly={"OldPeerCannotDilateError": "self._manager._main_channel.will_error"},
             ensures_raise={"OldPeerCannotDilateError": [("nothing-opened", "bcall_names() == ['when_fired']")]},
             ensures=[("waits-for-the-main-channel-first", "bcall_names()[0] == 'when_fired' and bcalls('send_open') == 1")],
             note="inlineCallbacks: raising == the returned Deferred errbacks; will_error: the main-channel observer "
                  "is or gets errored (Manager.fail)"),
    Contract(f"{SUB}:SubchannelListenerEndpoint.listen", props=[PROP], params={"factory": "obj[FactoryB]"},
             self_fields={"subprotocol_name": "str", "_manager": "obj[ManagerB]"},
             raises_exactly={"OldPeerCannotDilateError": "self._manager._main_channel.will_error"},
             ensures_raise={"OldPeerCannotDilateError": [("nothing-registered", "bcall_names() == ['when_fired']")]},
             ensures=[("waits-for-the-main-channel-first", "bcall_names()[0] == 'when_fired' and "
                                                           "bcalls('_register_subprotocol_factory') == 1")]),
]


# ------------------------------------------------------------------ table facts (evaluated from the extracted table)
def table_task(tier, seed):
    t0 = time.time()
    mod = source.load_module(MGR)
    m = Machine(mod.classes["Manager"])
    obs = []

    def chk(name, cond, src):
        obs.append(ob(f"{M}.table.{name}", "discharged" if cond else "failed", "evaluation", 0.0, False, None,
                      {"kind": "data", "src": src, "definite": True}, smt_hash=name))

    rows = m.table
    notif = {k: v for k, v in rows.items() if "notify_stopped" in v[1]}
    chk("notify_stopped-only-on-entering-STOPPED", all(v[0] == "STOPPED" and v[1].count("notify_stopped") == 1 for v in notif.values())
        and bool(notif), "every row that runs notify_stopped enters STOPPED and runs it once")
    chk("every-row-entering-STOPPED-notifies", all("notify_stopped" in v[1] for k, v in rows.items() if v[0] == "STOPPED"),
        "every row entering STOPPED runs notify_stopped")
    chk("STOPPED-is-final", not any(k[0] == "STOPPED" for k in rows), "no row leaves STOPPED (so _stopped fires at most once)")
    chk("STOPPING-only-left-by-connection-loss", {k[1] for k, v in rows.items() if k[0] == "STOPPING" and v[0] != "STOPPING"}
        == {"connection_lost_leader", "connection_lost_follower"}, "STOPPING is left exactly by the two connection_lost rows")
    chk("STOPPING-entered-only-by-stop", {k[1] for k, v in rows.items() if v[0] == "STOPPING" and k[0] != "STOPPING"} == {"stop"},
        "STOPPING is entered only by stop rows")
    return {"obligations": obs, "info": {"target": f"{M}.<transition table>", "sha": None, "lines": None, "paths": 1,
                                         "wall": round(time.time() - t0, 3)}}


INLINE_FOR = {
    f"{CON}:InboundConnectionFactory.buildProtocol": (f"{C}.build_protocol",),
    f"{C}.stop": (),
    "lemma:dilator_stop_callback": (f"{D}.stop", f"{M}.stop"),
    f"{D}.stop": (f"{M}.stop",),
}


REGF_FOR = {f"{C}.__attrs_post_init__": regf_ctor, f"{M}._start_connecting": regf_mgr_ctor, f"{C}.start": regf_start}


def tasks():
    out = []
    for c in CONTRACTS:
        out.append(ContractTask(c, REGF_FOR[c.target] if c.target in REGF_FOR else
                                regf_inline(*INLINE_FOR[c.target]) if c.target in INLINE_FOR else regf))
    out.append(FuncTask("manager-stop-table", table_task, True, "data"))
    # close() completing also depends on the Manager's timer discipline: abandon_connection / stop cancel
    # `_timer`, which raises (and aborts the shutdown) unless the timer is still pending.  That `_timer` is
    # None or pending is established by C16's contracts (timer_expired clears it first, every arming site
    # stores a fresh pending call): the same tasks are run here so that this check sees their failure too.
    from . import c16
    for t in c16.tasks():
        n = t.contract.target
        if n.startswith("lemma:timer_expiry") or n.endswith(("Manager._send_ping_reset_timer", "Manager.abandon_connection",
                                                             "Manager._stop_using_connection")):
            out.append(t)
    return out


TRUSTED = ["z3/cvc5", "pyvc semantics of the Python subset", "Automat dispatch semantics (pyvc/automat.py)",
           "inlineCallbacks: a failed Deferred yielded by the generator is raised at the yield; an escaping exception "
           "errbacks the returned Deferred", "OneShotObserver contract (C18): when_fired() Deferreds fire/errback with "
           "the observer's result", "[x.m() for x in set]: m called once on every element",
           "set(json list): str members only matter for an intersection with a set of str; unhashable members raise TypeError"]
ASSUMPTIONS = ["stop() reaches the Manager once (Terminator S_stoppingD is entered once, C08)",
               "loseConnection() is followed by connectionLost (so STOPPING is left); the eventual queue runs its callbacks",
               "in _find_shared_versions, my_versions.index(v) for v in the intersection never raises (v is a member); "
               "[(rank, v) for v in set] and sorted() of (int, str) pairs are modelled as 'one pair per member' / 'a permutation'",
               "status reporting (_maybe_send_status; the DilationHint entries _use_hints collects for Manager._hint_status) "
               "is dropped syntax",
               "Manager(...), DilatedConnectionProtocol(...), SubChannel(...) constructions are boundary events here.  The real "
               "Connector(...) constructor (attrs fields + __attrs_post_init__) runs inside Manager._start_connecting and is also "
               "verified on its own: observer.EmptyableSet(...) is an empty set, _hints.parse_hint_argv returns some hint or None, "
               "DebugTiming() is a boundary object; a new Connector is in its initial Automat state, its ghost sets are empty and "
               "its still-untyped empty set() fields get the element types of CONNECTOR_FIELDS.  Manager.__attrs_post_init__ is "
               "not under contract (Inbound/Outbound/DilatedWormhole/OneShotObserver collaborators: C10/C13/C15/C18)",
               "not under contract: Connector._get_listener_addresses / _publish_hints / _start_listener on their own (they are "
               "inlined into Connector.start and the lemma), select_and_stop_remaining / consider (C11); in _use_hints "
               "collections.defaultdict(list) is an empty map whose missing keys read as [], sorted(set(direct.keys()), "
               "reverse=True) is some list of keys (priorities are numbers, C20, hence comparable); ipaddrs.find_addresses() "
               "returns some list of str",
               "lemma listening_port_tracked requires the Connector to be 'connecting' when ep.listen()'s Deferred fires: "
               "twisted's TCP4ServerEndpoint.listen() fires synchronously, inside Connector.start().  An endpoint that fired "
               "after stop() would have its port added to _listeners after stop_listeners ran (never stopped), and "
               "listener_ready has no row in 'stopped'; not reachable with the TCP endpoint the code uses",
               "deferLater(reactor, delay, f, ...) returns a new Deferred; endpoint_from_hint_obj / describe_hint_obj / encode_hint "
               "return some endpoint / str / JSON value (assumed, C20's business); [XHint(...) for a in addresses] is one hint per address"]
