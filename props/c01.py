"""C01 - the session key is bound to the wormhole code (function-level part: what is fed into
SPAKE2, what the derived keys are functions of, in which order code and PAKE reach _SortedKey)."""
from pyvc.contract import Contract
from pyvc.runner import ContractTask
from pyvc.values import *   # noqa
from .common import make_registry, install_trace_funcs, register_classes
from . import whmodels, whcontracts as WC

from .mailbox_ready import CLUSTER_READY

PROP = "C01"

SP = "self._sp.password, self._sp.idSymmetric, self._sp.msg1"
PAKE_V1 = "json_get(json_of(body), 'pake_v1')"
WORMHOLE_DERIVE = dict(
    params={"purpose": "str", "length": "int"}, self_fields={"_key": "opt[bytes]"}, returns="bytes",
    requires=[WC.HKDF_RANGE.format("length")],
    raises_exactly={"NoKeyError": "not self._key"}, replay=WC.PURE_REPLAY,
    ensures=[("function-of-key-purpose-length", "result == hkdf(self._key, length, utf8(nfc(purpose)))"),
             ("length", "len(result) == length")],
    modifies=[])

KEY_SK = {"_SK": "obj[ISortedKey]"}

CODE_WIRES = {"_B": "obj[IBoss]", "_K": "obj[IKey]", "_N": "obj[INameplate]"}
CODE_FWD = ("bcalls('got_code') == 2 and bcall_arg('got_code', 0, 0) == code and bcall_arg('got_code', 1, 0) == code and "
            "[t for t in bcall_targets() if t.endswith('.got_code')] == ['IBoss.got_code', 'IKey.got_code']")
CONTRACTS = WC.owned(PROP) + [
    Contract("lemma:derive_key_type_checks", props=[PROP], source_module="wormhole/_key.py",
             params={"kb": "bytes", "pb": "bytes", "ks": "str", "ps": "str", "n": "int"},
             source_text="""
             def derive_key_type_checks(kb, pb, ks, ps, n):
                 out = []
                 try:
                     derive_key(ks, pb, n)
                 except TypeError:
                     out.append(1)
                 try:
                     derive_key(kb, ps, n)
                 except TypeError:
                     out.append(2)
                 try:
                     derive_key(kb, pb, None)
                 except TypeError:
                     out.append(3)
                 return out
             """,
             requires=[WC.HKDF_RANGE.format("n")], ensures=[("each-wrong-type-is-a-TypeError", "result == [1, 2, 3]")],
             note="derive_key executed (not by contract) on a str key, a str purpose and a None length"),
    Contract("lemma:pake_body_round_trip", props=[PROP], source_module="wormhole/_key.py", params={"msg1": "bytes"},
             source_text="""
             def pake_body_round_trip(msg1):
                 body = dict_to_bytes({"pake_v1": bytes_to_hexstr(msg1)})
                 payload = bytes_to_dict(body)
                 return hexstr_to_bytes(payload["pake_v1"])
             """,
             ensures=[("peer-recovers-the-spake-message", "result == msg1")],
             note="what build_pake puts on the wire is what the peer's got_pake hands to finish() (helpers by contract)"),
    Contract("wormhole/_key.py:_SortedKey.build_pake", props=[PROP], params={"code": "str"},
             self_fields={"_appid": "str", "_M": "obj[IMailbox]", "_side": "str"}, modifies=["_sp"],
             ensures=[("password-is-utf8-nfc-code", "self._sp.password == utf8(nfc(code))"),
                      ("identity-is-utf8-nfc-appid", "self._sp.idSymmetric == utf8(nfc(self._appid))"),
                      ("one-pake-message", "bcall_targets() == ['IMailbox.add_message'] and bcall_arg('add_message', 0, 0) == 'pake'"),
                      ("body-is-own-start-message",
                       "bcall_arg('add_message', 0, 1) == json_bytes({'pake_v1': hex_of(self._sp.msg1)})")],
             internal_ensures=[("started-once", "n_events('spake2.start') == 1 and event_arg('spake2.start', 0, 0) == self._sp.msg1")],
             note="the SPAKE2 password is exactly to_bytes(code), the symmetric identity exactly to_bytes(appid)"),
    Contract("wormhole/_key.py:_SortedKey.got_pake", props=[PROP], params={"body": "bytes"}, self_fields={"_side": "str"},
             replay={"driver": "trace_replay:run"},
             raises={"UnicodeDecodeError": "not json_parses(body)",
                     "UnicodeEncodeError": f"not is_ascii(json_str({PAKE_V1}))",
                     "ValueError": f"not json_parses(body) or not is_hex(ascii(json_str({PAKE_V1})))",
                     "AssertionError": f"not isinstance(json_of(body), dict) or not isinstance({PAKE_V1}, str)"},
             ensures=[("no-pake_v1-is-bad",
                       "implies(not json_has(json_of(body), 'pake_v1'), trace_order() == ['input:got_pake_bad'])"),
                      ("pake_v1-goes-to-finish-unhexed",
                       "implies(json_has(json_of(body), 'pake_v1'), trace_order() == ['input:got_pake_good'] and "
                       f"input_arg('got_pake_good', 0, 0) == unhex(ascii(json_str({PAKE_V1}))))")],
             ensures_raise={e: [("no-input-fired", "len(trace_order()) == 0")]
                            for e in ("UnicodeDecodeError", "ValueError", "AssertionError", "UnicodeEncodeError")},
             modifies=[],
             note="a fabricated PAKE body either raises (non-UTF-8, non-JSON, not an object, pake_v1 not a hex string) before any "
                  "input fires, or reaches got_pake_bad / got_pake_good with exactly the decoded bytes"),
    Contract("wormhole/_key.py:_SortedKey.compute_key", props=[PROP], params={"msg2": "bytes"},
             self_fields={"_sp": "obj[SPAKE2_Symmetric]", "_side": "str", "_versions": "json", "_B": "obj[IBoss]",
                          "_M": "obj[IMailbox]", "_R": "obj[IReceive]"},
             requires=["isinstance(self._versions, dict)"],
             raises={"UnicodeEncodeError": f"spake2_accepts({SP}, msg2) and not is_ascii(self._side)",
                     "SPAKEError": f"not spake2_accepts({SP}, msg2)", "ValueError": f"not spake2_accepts({SP}, msg2)",
                     "AssertionError": f"not spake2_accepts({SP}, msg2)"},
             ensures=[("only-when-finish-accepts", f"spake2_accepts({SP}, msg2) and is_ascii(self._side)"),
                      ("key-then-version-then-receive",
                       "bcall_targets() == ['IBoss.got_key', 'IMailbox.add_message', 'IReceive.got_key']"),
                      ("key-is-finish-of-password-identity-and-both-messages",
                       f"bcall_arg('got_key', 0, 0) == spake2_key({SP}, msg2) and bcall_arg('got_key', 1, 0) == spake2_key({SP}, msg2)"),
                      ("version-message-sealed-under-our-version-phase-key",
                       "bcall_arg('add_message', 0, 0) == 'version' and sealed(bcall_arg('add_message', 0, 1), "
                       f"phase_key(spake2_key({SP}, msg2), self._side, 'version'), json_bytes(self._versions))")],
             ensures_raise={"SPAKEError": [("no-key-recorded", "len(bcall_targets()) == 0")],
                            "ValueError": [("no-key-recorded", "len(bcall_targets()) == 0")],
                            "AssertionError": [("no-key-recorded", "len(bcall_targets()) == 0")],
                            "UnicodeEncodeError": [("receive-gets-no-key", "bcall_targets() == ['IBoss.got_key']")]},
             modifies=[],
             note="an exception from finish() (reflection, bad element) propagates before any key is handed out"),
    Contract("wormhole/_key.py:Key.stash_pake", props=[PROP], params={"body": "bytes"},
             self_fields=dict(KEY_SK, _debug_pake_stashed="bool"), modifies=["_pake", "_debug_pake_stashed"],
             ensures=[("stashed-unchanged", "self._pake == body"), ("nothing-delivered", "len(bcall_names()) == 0")]),
    Contract("wormhole/_key.py:Key.deliver_code", props=[PROP], params={"code": "str"}, self_fields=dict(KEY_SK),
             effects=[("got_code", ["code"])], modifies=[]),
    Contract("wormhole/_key.py:Key.deliver_pake", props=[PROP], params={"body": "bytes"}, self_fields=dict(KEY_SK),
             effects=[("got_pake", ["body"])], modifies=[]),
    Contract("wormhole/_key.py:Key.deliver_code_and_stashed_pake", props=[PROP], params={"code": "str"},
             self_fields=dict(KEY_SK, _pake="bytes"), effects=[("got_code", ["code"]), ("got_pake", ["old(self._pake)"])],
             modifies=[], note="code first, then the PAKE body exactly as stashed"),
    # ---- the code that reaches the key machine is the code the application supplied / typed / was allocated, unchanged
    # (seed C01-6: Input.do_words lower-cased typed words, so one and the same code gave different keys on the two paths)
    Contract("wormhole/_input.py:Input.do_words", props=[PROP], replay={"driver": "trace_replay:run"}, params={"words": "str"},
             self_fields={"_nameplate": "str", "_C": "obj[ICode]", "_start_timing": "obj[Timing]"},
             ensures=[("typed-code-is-nameplate-dash-words-unchanged",
                       "bcalls('finished_input') == 1 and bcall_arg('finished_input', 0, 0) == self._nameplate + '-' + words")],
             modifies=[]),
    Contract("wormhole/_code.py:Code.do_set_code", props=[PROP], replay={"driver": "trace_replay:run"}, params={"code": "str"}, self_fields=dict(CODE_WIRES),
             ensures=[("code-reaches-boss-and-key-unchanged", CODE_FWD),
                      ("nameplate-is-the-part-before-the-first-dash",
                       "bcalls('set_nameplate') == 1 and bcall_arg('set_nameplate', 0, 0) == first_part(code, '-')")],
             modifies=[]),
    Contract("wormhole/_code.py:Code.do_finish_input", props=[PROP], replay={"driver": "trace_replay:run"}, params={"code": "str"}, self_fields=dict(CODE_WIRES),
             ensures=[("code-reaches-boss-and-key-unchanged", CODE_FWD)], modifies=[]),
    Contract("wormhole/_code.py:Code.do_finish_allocate", props=[PROP], replay={"driver": "trace_replay:run"}, params={"nameplate": "str", "code": "str"},
             self_fields=dict(CODE_WIRES), raises={"AssertionError": "not code.startswith(nameplate + '-')"},
             ensures=[("code-reaches-boss-and-key-unchanged", CODE_FWD),
                      ("nameplate-unchanged", "bcalls('set_nameplate') == 1 and bcall_arg('set_nameplate', 0, 0) == nameplate")],
             modifies=[]),
    Contract("wormhole/_code.py:Code.do_middle_input", props=[PROP], replay={"driver": "trace_replay:run"}, params={"nameplate": "str"}, self_fields=dict(CODE_WIRES),
             ensures=[("nameplate-unchanged", "bcalls('set_nameplate') == 1 and bcall_arg('set_nameplate', 0, 0) == nameplate "
                                              "and len(bcall_names()) == 1")], modifies=[]),
    Contract("wormhole/_code.py:Code.set_code", props=[PROP], replay={"driver": "trace_replay:run"}, params={"code": "str"}, self_fields={},
             raises={"KeyFormatError": None},
             ensures=[("validated-code-handed-on-unchanged", "input_calls('_set_code') == 1 and input_arg('_set_code', 0, 0) == code")],
             modifies=[]),
    Contract("wormhole/_receive.py:Receive.W_got_verifier", props=[PROP], params={"phase": "str", "plaintext": "bytes"},
             self_fields={"_key": "bytes", "_B": "obj[IBoss]"},
             effects=[("got_verifier", ["hkdf(self._key, 32, b'wormhole:verifier')"])], modifies=[],
             note="the verifier is a function of the session key alone"),
    Contract("wormhole/wormhole.py:_DeferredWormhole.derive_key", props=[PROP], **WORMHOLE_DERIVE),
    Contract("wormhole/wormhole.py:_DelegatedWormhole.derive_key", props=[PROP], **WORMHOLE_DERIVE),
    Contract("lemma:purpose_must_be_str", props=[PROP], source_module="wormhole/wormhole.py",
             params={"w1": "obj[_DeferredWormhole]", "w2": "obj[_DelegatedWormhole]", "purpose": "bytes", "n": "int"},
             source_text="""
             def purpose_must_be_str(w1, w2, purpose, n):
                 out = []
                 try:
                     w1.derive_key(purpose, n)
                 except TypeError:
                     out.append(1)
                 try:
                     w2.derive_key(purpose, n)
                 except TypeError:
                     out.append(2)
                 return out
             """,
             ensures=[("bytes-purpose-is-a-TypeError", "result == [1, 2]")]),
    Contract("lemma:passwords_agree_iff_nfc_codes_agree", props=[PROP], source_module="wormhole/util.py",
             params={"c1": "str", "c2": "str"},
             source_text="""
             def passwords_agree_iff_nfc_codes_agree(c1, c2):
                 return (to_bytes(c1), to_bytes(c2))
             """,
             ensures=[("iff", "(result[0] == result[1]) == (nfc(c1) == nfc(c2))")],
             note="congruence one way, injectivity of UTF-8 the other: the SPAKE2 inputs of two sides are equal exactly "
                  "when the NFC forms of their codes are"),
    Contract("lemma:purposes_separate_keys", props=[PROP], source_module="wormhole/wormhole.py",
             params={"w": "obj[_DeferredWormhole]", "p1": "str", "p2": "str", "n": "int"},
             source_text="""
             def purposes_separate_keys(w, p1, p2, n):
                 return (w.derive_key(p1, n), w.derive_key(p2, n))
             """,
             requires=[WC.HKDF_RANGE.format("n"), "w._key",
                       "hkdf_info_injective(w._key, n, utf8(nfc(p1)), utf8(nfc(p2)))"],
             ensures=[("equal-results-iff-nfc-equal-purposes", "(result[0] == result[1]) == (nfc(p1) == nfc(p2))")],
             note="different purposes (after NFC) give different keys, under the stated HKDF hypothesis for these arguments"),
    Contract("lemma:same_key_same_derived_keys", props=[PROP], source_module="wormhole/wormhole.py",
             params={"a": "obj[_DeferredWormhole]", "b": "obj[_DelegatedWormhole]", "purpose": "str", "n": "int"},
             source_text="""
             def same_key_same_derived_keys(a, b, purpose, n):
                 return (a.derive_key(purpose, n), b.derive_key(purpose, n))
             """,
             requires=[WC.HKDF_RANGE.format("n"), "a._key", "a._key == b._key"],
             ensures=[("identical-bytes-on-both-sides", "result[0] == result[1]")]),
]

INLINE_FOR = {
    "lemma:derive_key_type_checks": ("wormhole/_key.py:derive_key",),
    "lemma:purpose_must_be_str": ("wormhole/wormhole.py:_DeferredWormhole.derive_key",
                                  "wormhole/wormhole.py:_DelegatedWormhole.derive_key"),
}


def regf(exclude=()):
    reg = make_registry()
    install_trace_funcs(reg)
    register_classes(reg, ["wormhole/errors.py", "wormhole/wormhole.py"])
    whmodels.install_crypto(reg)
    whmodels.install_axiom_instances(reg)
    for c in WC.SHARED + CONTRACTS:
        if c.target not in exclude:
            reg.contracts[c.target] = c
    reg.class_fields["_DeferredWormhole"] = {"_key": "opt[bytes]"}
    reg.class_fields["_DelegatedWormhole"] = {"_key": "opt[bytes]"}
    reg.input_as_boundary = True
    return reg


def _f_tasks():
    out = []
    for c in CONTRACTS:
        ex = INLINE_FOR.get(c.target)
        out.append(ContractTask(c, (lambda ex=ex: regf(exclude=ex)) if ex else regf))
    # "with matching codes every message is delivered; with different codes nothing is": what Receive and Order do with an
    # inbound message (authentic under the key of the claimed label => handed on unchanged, else scared) is under contract in
    # C02's / C03's modules and is part of this property as well
    from . import c02, c03
    out += [t for t in c02._f_tasks() if t.contract.target.endswith(("Receive.got_message", "decrypt_data", "encrypt_data"))]
    out += [t for t in c03.tasks() if getattr(t, "contract", None) is not None and
            t.contract.target.endswith(("Order.got_message", "Receive.got_message_good", "Order.__attrs_post_init__"))]
    return out


TRUSTED = ["z3/cvc5", "pyvc semantics of the Python subset"] + whmodels.TRUSTED_CRYPTO
ASSUMPTIONS = [
    "SPAKE2: both sides compute the same finish() value iff password and identity agree (cryptographic; what is proved is "
    "that password == utf8(NFC(code)) and identity == utf8(NFC(appid)) and that the key handed to Boss/Receive is finish()'s)",
    "lemma purposes_separate_keys assumes, for its arguments, that HKDF separates different info strings (false for tiny "
    "lengths such as n == 0; an idealisation otherwise)",
    "Automat inputs called inside the functions are boundaries here; the Key / _SortedKey / Receive transition tables "
    "(which output runs in which state) belong to the machine-level engine",
    "compute_key requires _versions to be a dict (attrs validator instance_of(dict) on the field)",
]



def select_m(name):
    # the verdict on a mismatch must also stay the one recorded first (a later cause must not overwrite it)
    return name.startswith("post:C01:") or name in ("post:C08:verdict-recorded-once", "post:C08:verdict-scary-justified")


def tasks():
    """function-level tasks plus the machine-level obligations of this property (mailbox-cluster engine)"""
    import os
    from pyvc.mrun import ClusterTask
    if not CLUSTER_READY or os.environ.get("VERIF_NO_CLUSTER"):
        return _f_tasks()
    return _f_tasks() + [ClusterTask("mailbox-cluster", "props.mailbox", "engine", select_m, "mailbox_history:search")]
