"""The mailbox-side cluster (Boss + 12 machines + RendezvousConnector) for the composed-machine
verifier: object graph, tracked state, ghost environment state, environment contract
(DESIGN 3.3, E1-E5), boundary models.  Used by C14, C08, C09, C18 (and the M parts of C01-C03)."""
import os
import z3

from pyvc.values import *      # noqa
from pyvc.values import J, OJ
from pyvc.interp import PyRaise, VJsonDict, _NOCONST
from pyvc.cluster import ClusterSpec
from pyvc.mrun import MEngine, Entry
from pyvc.models import uf
from pyvc.ctx import PathEnd
from pyvc import source
from .common import make_registry, install_trace_funcs, register_classes

ROOT = os.path.dirname(os.path.dirname(os.path.abspath(__file__)))
W = "wormhole/"

MOODS = ["none", "happy", "lonely", "scary", "errory", "unwelcome"]
RESULT_KINDS = ["empty", "happy", "lonely", "scary", "errory", "unwelcome", "conn_error", "other"]
RESULT_CLASS = {"LonelyError": "lonely", "WrongPasswordError": "scary", "ServerError": "errory",
                "WelcomeError": "unwelcome", "ServerConnectionError": "conn_error"}


def make_spec():
    s = ClusterSpec()
    s.objects = {
        "B": (W + "_boss.py", "Boss"), "N": (W + "_nameplate.py", "Nameplate"), "M": (W + "_mailbox.py", "Mailbox"),
        "S": (W + "_send.py", "Send"), "O": (W + "_order.py", "Order"), "K": (W + "_key.py", "Key"),
        "SK": (W + "_key.py", "_SortedKey"), "R": (W + "_receive.py", "Receive"),
        "RC": (W + "_rendezvous.py", "RendezvousConnector"), "L": (W + "_lister.py", "Lister"),
        "A": (W + "_allocator.py", "Allocator"), "I": (W + "_input.py", "Input"), "C": (W + "_code.py", "Code"),
        "T": (W + "_terminator.py", "Terminator"),
    }
    s.wire_from = W + "_boss.py:Boss._build_workers"
    s.root = "B"
    s.fields = {
        "Boss": {"_did_start_code": "bool", "_next_tx_phase": "int", "_next_rx_phase": "int",
                 "_rx_phases": "dict[int,bytes]", "_next_rx_dilate_seqnum": "int", "_rx_dilate_seqnums": "dict[int,bytes]",
                 "_result": "opaque[Result]", "_their_versions": "json"},
        "Nameplate": {"_nameplate": "opt[str]"},
        "Mailbox": {"_mailbox": "opt[str]", "_mood": "opt[str]", "_pending_outbound": "dict[str,bytes]",
                    "_processed": "set[str]"},
        "Send": {"_queue": "seq[tuple[str,bytes]]", "_key": "opt[bytes]"},
        "Order": {"_queue": "seq[tuple[str,str,bytes]]"},
        "Key": {"_pake": "opt[bytes]", "_debug_pake_stashed": "bool"},
        "_SortedKey": {"_sp": "opt[opaque[SPAKE2]]"},
        "Receive": {"_key": "opt[bytes]"},
        "RendezvousConnector": {"_ws": "opt[opaque[WS]]", "_stopping": "bool", "_have_made_a_successful_connection": "bool"},
        "Allocator": {"_length": "int", "_wordlist": "opt[obj[PGPWordList]]"},
        "Input": {"_all_nameplates": "set[str]", "_nameplate": "opt[str]", "_wordlist": "opt[obj[PGPWordList]]",
                  "_wordlist_waiters": "seq[opaque[Deferred]]"},
    }
    s.init = {
        "Boss": {"_did_start_code": "False", "_next_tx_phase": "0", "_next_rx_phase": "0", "_rx_phases": "{}",
                 "_next_rx_dilate_seqnum": "0", "_rx_dilate_seqnums": "{}", "_result": "'empty'",
                 "_their_versions": "None"},
        "Nameplate": {"_nameplate": "None"},
        "Mailbox": {"_mailbox": "None", "_mood": "None", "_pending_outbound": "{}", "_processed": "set()"},
        "Send": {"_queue": "[]", "_key": "None"}, "Order": {"_queue": "[]"},
        "Key": {"_pake": "None", "_debug_pake_stashed": "False"}, "_SortedKey": {"_sp": "None"},
        "Receive": {"_key": "None"},
        "RendezvousConnector": {"_ws": "None", "_stopping": "False", "_have_made_a_successful_connection": "False"},
        "Allocator": {"_length": "0", "_wordlist": "None"},
        "Input": {"_all_nameplates": "set()", "_nameplate": "None", "_wordlist": "None", "_wordlist_waiters": "[]"},
    }
    s.no_component = {("Boss", "_rx_phases"), ("Boss", "_rx_dilate_seqnums"), ("Boss", "_their_versions"),
                      ("Key", "_debug_pake_stashed"), ("Input", "_wordlist_waiters"),
                      ("Mailbox", "_pending_outbound"), ("Mailbox", "_processed"), ("Input", "_all_nameplates")}
    # what the pairwise template cannot see through a plain set / string: is 'pake' / 'version' already processed
    # (the Mailbox forwards each phase once), and which mood the Mailbox has recorded
    s.extra_components = [("M.pake_processed", "member", "M", "_processed", "pake"),
                          ("M.version_processed", "member", "M", "_processed", "version"),
                          ("M.mood", "mapped", "M", "_mood", list(MOODS)),
                          ("ghost.version_from_queue", "member", "ghost", "queued_delivered", "version")]
    s.const_fields = {
        "Boss": {"_side": "str", "_appid": "str", "_versions": "json", "_W": "obj[WormholeApp]",
                 "_url": "str"},
        "Mailbox": {"_side": "str"}, "Send": {"_side": "str"}, "Order": {"_side": "str"},
        "Key": {"_side": "str", "_appid": "str", "_versions": "json"},
        "_SortedKey": {"_side": "str", "_appid": "str", "_versions": "json"},
        "Receive": {"_side": "str"},
        "RendezvousConnector": {"_side": "str", "_appid": "str", "_url": "str", "_client_version": "opaque[ClientVersion]",
                                "_connector": "obj[ClientService]", "_debug_record_inbound_f": "none", "_trace": "none"},
        "Terminator": {"_mood": "none"},
    }
    g = {}
    for f in ["started", "connected", "ever_connected", "service_stopped", "rc_stop_called", "stopped_pending",
              "stopped_done", "error_cb_pending", "init_fail_done",
              "welcome_rx", "bound", "claim_sent", "claim_owed", "release_sent", "release_owed", "open_sent",
              "close_sent", "close_owed", "allocate_sent", "allocate_owed", "list_owed",
              "api_closed", "helper_given", "d_stop_called", "d_stopped_done",
              "w_code", "w_key", "w_verifier", "w_versions", "w_closed", "good_decrypt", "version_added",
              "happy_seen", "scared_seen", "server_error_seen", "unwelcome_seen", "claimed_maybe", "opened_maybe"]:
        g[f] = ("bool", "False")
    g["result_kind"] = ("enum:" + ",".join(RESULT_KINDS), "0")
    g["queued_delivered"] = ("set[str]", "set()")   # phases already handed over from Order's queue
    g["versions_via"] = ("enum:none,queue,direct", "0")   # how the peer's versions reached the application
    g["key_to_app"] = ("enum:none,delivered,swallowed", "0")   # Boss.got_key: handed to the application / ignored while closing
    g["order_drain_pending"] = ("bool", "False")    # Order.drain has queued messages still to hand to Receive (see order_drain)
    g["close_mood"] = ("enum:none,happy,lonely,scary,errory,unwelcome", "0")
    g["tx_close_mood"] = ("enum:none,happy,lonely,scary,errory,unwelcome", "0")
    g["added"] = ("set[str]", "set()")
    s.ghost = g
    s.setup = setup
    s.prelink = prelink
    s.externals = {"_D": "DilatorB"}
    return s


def prelink(objs):
    objs["K"].fields["_SK"] = objs["SK"]


def setup(it, objs, initial=False):
    """shared constants and objects outside the table-driven part"""
    side = objs["B"].fields.get("_side")
    # our own side is 16 hex digits chosen by the library (wormhole.create): ASCII
    it.ctx.assume(z3.InRe(side.z, z3.Star(z3.Union(z3.Range("0", "9"), z3.Range("a", "f")))))
    for nm in ("M", "S", "O", "K", "SK", "R", "RC"):
        objs[nm].fields["_side"] = side
    for nm in ("K", "SK", "RC"):
        objs[nm].fields["_appid"] = objs["B"].fields["_appid"]
    for nm in ("K", "SK"):
        objs[nm].fields["_versions"] = objs["B"].fields["_versions"]
    objs["K"].fields["_SK"] = objs["SK"]


# ------------------------------------------------------------------------------------ registry
def make_reg(delegated=False):
    reg = make_registry()
    reg.delegated = delegated
    install_trace_funcs(reg)
    register_classes(reg, [W + "errors.py", W + "_wordlist.py", W + "_input.py"])
    reg.regex_abstract = True
    reg.max_inline_depth = 40      # the cluster is inlined through every machine; chains such as message -> key -> send -> mailbox are deep
    reg.drop_calls += ["self._evolve_wormhole_status", "self._evolve_status", "self._start_timing.finish",
                       "self._timing.add", "self._debug"]
    em, fm = reg.ext_models, reg.func_models

    # ---- serialisation helpers (wormhole/util.py): assumed contracts
    def bytes_to_dict(it, args, kw, fr):
        b = it.force(args[0])
        jo = getattr(b, "json_of", None)
        if jo is not None:
            return jo
        if it.ctx.choose([z3.BoolVal(True), z3.BoolVal(True)], "json-parse") == 1:
            it.raise_("ValueError", VStr("not JSON / not a dict"))
        z = z3.Const(it.ctx.namer("parsed"), J)
        it.ctx.assume(J.is_jdict(z))
        return VJsonDict(z)

    def dict_to_bytes(it, args, kw, fr):
        d = it.force(args[0])
        r = VStr(z3.String(it.ctx.namer("json_bytes")), "bytes")
        r.json_of = d
        return r

    def hexstr_to_bytes(it, args, kw, fr):
        h = it.force(args[0])
        if isinstance(h, VJson):
            h = it.json_narrow(h)
        if not (isinstance(h, VStr) and h.kind == "str"):
            it.raise_("AssertionError")
        if it.ctx.choose([z3.BoolVal(True), z3.BoolVal(True)], "hex-ok") == 1:
            it.raise_("binascii.Error")
        return fresh_bytes(it, "unhex")

    def bytes_to_hexstr(it, args, kw, fr):
        return VStr(z3.String(it.ctx.namer("hexstr")), "str")

    fm[W + "util.py:bytes_to_dict"] = bytes_to_dict
    fm[W + "util.py:dict_to_bytes"] = dict_to_bytes
    fm[W + "util.py:hexstr_to_bytes"] = hexstr_to_bytes
    fm[W + "util.py:bytes_to_hexstr"] = bytes_to_hexstr
    # at this level the *values* of keys, digests and ciphertexts do not matter (C01/C02 prove those
    # function by function): they are fresh byte strings of the right length, which keeps
    # uninterpreted functions over strings out of the path conditions
    def fresh_bytes(it, name, n=None):
        z = z3.String(it.ctx.namer(name))
        if n is not None:
            it.ctx.assume(z3.Length(z) == n)
        return VStr(z, "bytes")

    fm[W + "util.py:to_bytes"] = lambda it, a, k, f: fresh_bytes(it, "to_bytes")

    def hkdf(it, args, kw, fr):
        skm = it.force(args[0])
        outlen = it.force(args[1])
        r = z3.String(it.ctx.namer("hkdf"))
        it.ctx.assume(z3.Length(r) == outlen.z)
        return VStr(r, "bytes")

    fm[W + "util.py:HKDF"] = hkdf

    def mailbox_drain(it, args, kw, fr):
        """Mailbox._drain by its contract (proved on the real body in C09: one tx_add per pending phase, body
        unchanged): afterwards every pending phase has been added on this connection"""
        m = it.force(args[0])
        g = it.reg.ghost_obj
        it.ctx.prove(it.truth(it.getattr(m.fields["_RC"], "_ws")) if False else it.truth(m.fields["_RC"].fields["_ws"]),
                     "assert@wormhole/_rendezvous.py:RendezvousConnector._tx:self._ws[via Mailbox._drain]",
                     {"kind": "assert", "src": "self._ws (Mailbox._drain sends on the current connection)", "function": "RendezvousConnector._tx"})
        it.ctx.prove(it.truth(g.fields["bound"]), "post:C09:bind-before-add", {"kind": "post", "src": "bind before add"})
        po = m.fields["_pending_outbound"]
        added = g.fields["added"]
        k = z3.Const("k!drain", StringS)
        added.z = z3.Lambda([k], z3.Or(added.z[k], po.present[k]))
        return NONE

    fm[W + "_mailbox.py:Mailbox._drain"] = mailbox_drain

    def order_drain(it, args, kw, fr):
        """Order.drain by its contract (proved on the real body in C03: every queued message is handed to
        Receive.got_message once, in arrival order, unchanged; the queue is emptied).  The hand-overs themselves are
        explored as the entry point `order.deliver_queued`, which is the only entry enabled while they are pending:
        they run to completion before anything else can happen, exactly as in the real loop, but each starts from
        (and must re-establish) the ordinary invariant instead of a separate loop invariant."""
        o = it.force(args[0])
        q = o.fields["_queue"]
        g = it.reg.ghost_obj
        g.fields["order_drain_pending"] = VBool(z3.Length(q.z) > 0)
        q.z = z3.Empty(q.z.sort())
        return NONE

    fm[W + "_order.py:Order.drain"] = order_drain

    # ---- crypto libraries
    def secretbox_new(it, args, kw):
        return VObj("SecretBox", {"key": it.force(args[0])})

    em["nacl.secret.SecretBox"] = secretbox_new
    em["nacl.utils.random"] = lambda it, a, k: VStr(z3.String(it.ctx.namer("nonce")), "bytes")

    def sb_encrypt(it, recv, meth, args, kwargs, fr):
        return VStr(z3.String(it.ctx.namer("ciphertext")), "bytes")

    def sb_decrypt(it, recv, meth, args, kwargs, fr):
        if it.ctx.choose([z3.BoolVal(True), z3.BoolVal(True)], "decrypt") == 1:
            it.raise_("CryptoError")
        it.reg.ghost_obj.fields["good_decrypt"] = VBool(True)
        return VStr(z3.String(it.ctx.namer("plaintext")), "bytes")

    reg.boundary["SecretBox.encrypt"] = sb_encrypt
    reg.boundary["SecretBox.decrypt"] = sb_decrypt

    def spake_new(it, args, kw):
        return VOpaque(z3.Const(it.ctx.namer("spake"), opaque_sort("SPAKE2")), "SPAKE2")

    em["spake2.SPAKE2_Symmetric"] = spake_new
    reg.boundary["SPAKE2.start"] = lambda it, r, m, a, k, f: VStr(z3.String(it.ctx.namer("pake_msg")), "bytes")

    def spake_finish(it, recv, meth, args, kwargs, fr):
        if it.ctx.choose([z3.BoolVal(True), z3.BoolVal(True)], "spake-finish") == 1:
            it.raise_("SPAKEError")
        k = z3.String(it.ctx.namer("session_key"))
        it.ctx.assume(z3.Length(k) == 32)
        return VStr(k, "bytes")

    reg.boundary["SPAKE2.finish"] = spake_finish
    reg.exc_bases["SPAKEError"] = "Exception"

    def sha256(it, args, kw):
        return VObj("sha256", {"data": it.force(args[0])})

    em["hashlib.sha256"] = sha256

    def sha_digest(it, recv, meth, args, kwargs, fr):
        return fresh_bytes(it, "sha256", 32)

    reg.boundary["sha256.digest"] = sha_digest

    # ---- Helper object handed to the application by input_code()
    def new_helper(it, cls, args, kwargs):
        return VObj("Helper", {"_input": args[0]})

    em["new:Helper"] = new_helper

    # ---- twisted bits used by RendezvousConnector
    def maybe_deferred(it, args, kw):
        f = args[0]
        it.call(f, list(args[1:]), dict(kw))
        return VObj("DeferredLike", {"kind": VStr("service-stop")})

    em["twisted.internet.defer.maybeDeferred"] = maybe_deferred
    em["defer.maybeDeferred"] = maybe_deferred

    def d_add(it, recv, meth, args, kwargs, fr):
        """Deferred returned by ClientService.stopService(): fires now or in a later turn"""
        g = it.reg.ghost_obj
        if meth == "addErrback":
            return recv
        cb = args[0]
        is_stopped_cb = isinstance(cb, VFunc) and cb.fdef.qualname.endswith("_stopped")
        if is_stopped_cb:
            # RC.stop(): the service stops at once when there is no connection, else after ws_close
            conn = it.truth(g.fields["connected"])
            if it.ctx.branch(conn, "stop-while-connected") or \
                    it.ctx.choose([z3.BoolVal(True), z3.BoolVal(True)], "stopService-fires") == 1:
                g.fields["stopped_pending"] = VBool(True)
                return recv
            g.fields["stopped_done"] = VBool(True)
            g.fields["service_stopped"] = VBool(True)
            it.call(cb, [NONE], {})
            return recv
        # the `lambda _: self._B.error(sce)` callbacks after an initial connection failure
        if it.ctx.choose([z3.BoolVal(True), z3.BoolVal(True)], "stopService-fires") == 1:
            g.fields["error_cb_pending"] = VBool(True)
            return recv
        it.call(cb, [NONE], {})
        return recv

    reg.boundary["DeferredLike.addCallback"] = d_add
    reg.boundary["DeferredLike.addBoth"] = d_add
    reg.boundary["DeferredLike.addErrback"] = d_add

    def svc_stop(it, recv, meth, args, kwargs, fr):
        return NONE

    reg.boundary["ClientService.stopService"] = svc_stop
    reg.boundary["ClientService.startService"] = svc_stop

    # ---- the websocket: sending a message updates the per-connection ghost flags
    def ws_send(it, recv, meth, args, kwargs, fr):
        g = it.reg.ghost_obj
        payload = it.force(args[0])
        d = getattr(payload, "json_of", None)
        mtype = it.concrete(d.d["type"]) if isinstance(d, VDict) and "type" in d.d else _NOCONST
        if mtype is _NOCONST:
            raise OutOfSubset("websocket message of unknown type")
        it.ctx.event("tx", mtype, d)
        # the client binds first on every connection (C09)
        if mtype != "bind":
            it.ctx.prove(it.truth(g.fields["bound"]), f"post:C09:bind-before-{mtype}",
                         {"kind": "post", "src": "bind is sent before any other message on each connection"})
        # the server can only act on a command that names what it is about (the environment contract E2 answers `claimed`,
        # `released`, `closed` ... to well-formed commands): claim / release carry the nameplate, open / close the mailbox id
        # this client holds - on every connection, i.e. also when the command is re-issued after a reconnect
        objs_ = it.reg.cluster_engine._objs

        def names(field_key, holder, attr, oblig, what):
            have = isinstance(d, VDict) and field_key in d.d
            ok = z3.BoolVal(False)
            if have:
                sent = it.force(d.d[field_key])
                cur = objs_[holder].fields[attr]
                curv = cur.inner if isinstance(cur, VOpt) else cur
                isn = cur.isnone if isinstance(cur, VOpt) else z3.BoolVal(False)
                if isinstance(sent, VOpt):
                    ok = z3.And(z3.Not(sent.isnone), z3.Not(isn), sent.inner.z == curv.z)
                elif isinstance(sent, VStr) and isinstance(curv, VStr):
                    ok = z3.And(z3.Not(isn), sent.z == curv.z)
            it.ctx.prove(ok, oblig, {"kind": "post", "src": what})

        if mtype in ("claim", "release"):
            names("nameplate", "N", "_nameplate", f"post:C09:{mtype}-names-the-nameplate",
                  f"the `{mtype}` command carries the nameplate this client holds")
        if mtype in ("open", "close"):
            names("mailbox", "M", "_mailbox", f"post:{'C08' if mtype == 'close' else 'C09'}:{mtype}-names-the-mailbox",
                  f"the `{mtype}` command carries the id of the mailbox this client holds")
        flags = {"bind": ["bound"], "claim": ["claim_sent", "claim_owed"], "release": ["release_sent", "release_owed"],
                 "open": ["open_sent"], "close": ["close_sent", "close_owed"], "allocate": ["allocate_sent", "allocate_owed"],
                 "list": ["list_owed"]}.get(mtype, [])
        for flag in flags:
            g.fields[flag] = VBool(True)
        if mtype == "add":
            ph = it.force(d.d["phase"])
            st = g.fields["added"]
            st.z = z3.Store(st.z, ph.z, True)
        if mtype == "claim":
            g.fields["claimed_maybe"] = VBool(True)
        if mtype == "open":
            g.fields["opened_maybe"] = VBool(True)
        if mtype == "close":
            mood = it.force(d.d["mood"])
            g.fields["tx_close_mood"] = mood_enum(it, mood)
            it.ctx.prove(g.fields["tx_close_mood"].z == g.fields["close_mood"].z, "post:C08:mailbox-closed-with-boss-mood",
                         {"kind": "post", "src": "the mood sent in the server 'close' is the mood the Boss gave the Terminator"})
        return NONE

    reg.boundary["WS.sendMessage"] = ws_send

    # ---- the application (W): every call is checked against the event-order automaton (C18/C08)
    def w_call(it, recv, meth, args, kwargs, fr):
        g = it.reg.ghost_obj
        t = lambda f: it.truth(g.fields[f])     # noqa
        it.ctx.event("W", meth, list(args))
        it.ctx.prove(z3.Not(t("w_closed")), f"post:C08:nothing-after-closed[{meth}]",
                     {"kind": "post", "src": f"W.{meth} is never called after W.closed"})
        if meth == "got_code":
            it.ctx.prove(z3.Not(t("w_code")), "post:C18:code-once", {"kind": "post", "src": "got_code at most once"})
            g.fields["w_code"] = VBool(True)
        elif meth == "got_key":
            it.ctx.prove(z3.And(t("w_code"), z3.Not(t("w_key"))), "post:C18:key-after-code-once",
                         {"kind": "post", "src": "got_key after got_code, at most once"})
            g.fields["w_key"] = VBool(True)
            g.fields["key_to_app"] = VInt(1)
        elif meth == "got_verifier":
            it.ctx.prove(z3.And(g.fields["key_to_app"].z == 1, z3.Not(t("w_verifier"))), "post:C18:verifier-after-key-once",
                         {"kind": "post", "src": "got_verifier after got_key, at most once"})
            it.ctx.prove(t("good_decrypt"), "post:C01:verifier-only-after-good-decrypt",
                         {"kind": "post", "src": "a verifier is reported only after a peer message decrypted"})
            g.fields["w_verifier"] = VBool(True)
        elif meth == "got_versions":
            it.ctx.prove(z3.And(t("w_verifier"), z3.Not(t("w_versions"))), "post:C18:versions-after-verifier-once",
                         {"kind": "post", "src": "got_versions after got_verifier, at most once"})
            it.ctx.prove(t("good_decrypt"), "post:C01:versions-only-after-good-decrypt", {"kind": "post"})
            g.fields["w_versions"] = VBool(True)
            g.fields["versions_via"] = VInt(1 if getattr(it.reg, "_in_queue_delivery", False) else 2)
        elif meth == "received":
            it.ctx.prove(t("w_verifier"), "post:C18:message-after-verifier",
                         {"kind": "post", "src": "received only after got_verifier"})
            it.ctx.prove(t("good_decrypt"), "post:C01:message-only-after-good-decrypt", {"kind": "post"})
        elif meth == "closed":
            rk = g.fields["result_kind"].z
            it.ctx.prove(z3.And(rk != RESULT_KINDS.index("empty"), rk != RESULT_KINDS.index("other")),
                         "post:C14:verdict-is-documented",
                         {"kind": "post", "src": "closed() reports 'happy' or a documented WormholeError"})
            K = RESULT_KINDS.index
            tbl = [("happy", "happy_seen", "'happy' only if a valid peer message was seen"),
                   ("scary", "scared_seen", "WrongPasswordError only after an undecryptable peer message / bad PAKE"),
                   ("errory", "server_error_seen", "ServerError only when the server sent an error"),
                   ("unwelcome", "unwelcome_seen", "WelcomeError only when the welcome carried an error")]
            for kind, flag, text in tbl:
                it.ctx.prove(z3.Implies(rk == K(kind), t(flag)), f"post:C08:verdict-{kind}-justified", {"kind": "post", "src": text})
            it.ctx.prove(z3.Implies(rk == K("lonely"), z3.Not(t("happy_seen"))), "post:C08:verdict-lonely-only-if-no-peer-message",
                         {"kind": "post", "src": "LonelyError only if no valid peer message was seen"})
            # by the time of a normal closed(): nameplate released / never claimed, mailbox closed / never opened, RC stopped
            normal = z3.And(rk != K("conn_error"), rk != K("other"))
            cl = it.reg.cluster_engine._cl
            tm = cl.am.machine_of(cl.classes["T"])
            T_state = it.reg.cluster_engine._objs["T"].fields["__state"].z
            it.ctx.prove(z3.Implies(normal, T_state == tm.index("S_stopped")), "post:C08:closed-only-when-terminator-stopped",
                         {"kind": "post", "src": "closed() with a normal verdict only after the Terminator reached S_stopped"})
            it.ctx.prove(z3.Implies(normal, z3.And(t("service_stopped"), z3.Not(t("connected")))),
                         "post:C08:server-connection-dropped-before-closed",
                         {"kind": "post", "src": "by closed(): the ClientService has reported that it stopped (no connection is up, "
                                                 "none can still open)"})
            it.ctx.prove(z3.Implies(normal, z3.And(z3.Not(t("claimed_maybe")), z3.Not(t("opened_maybe")), t("rc_stop_called"))),
                         "post:C08:resources-freed-before-closed",
                         {"kind": "post", "src": "by closed(): nameplate released or never claimed, mailbox closed or never "
                                                 "opened, server connection stopped"})
            g.fields["w_closed"] = VBool(True)
        if reg.delegated and meth != "closed":
            # delegated API (docs/api.rst "Delegated mode"): the callback runs synchronously inside the Boss's output and the
            # application may call back into the wormhole from it: send_message() or close() (E4; the real
            # _DelegatedWormhole.send_message/close go straight to Boss.send / Boss.close)
            closed_by_app = it.truth(g.fields["api_closed"])
            if not z3.is_true(z3.simplify(closed_by_app)):
                c = it.ctx.choose([z3.BoolVal(True), z3.Not(closed_by_app), z3.Not(closed_by_app)], f"delegate-reenters[{meth}]")
                B = it.reg.cluster_engine._objs["B"]
                if c == 1:
                    it.call(it.getattr(B, "send"), [it.fresh("bytes", "reentrant_plaintext")], {})
                elif c == 2:
                    it.call(it.getattr(B, "close"), [], {})
                    g.fields["api_closed"] = VBool(True)
        return NONE

    reg.boundary["WormholeApp.*"] = w_call

    # ---- the Dilator (outside this cluster): boundary
    def d_call(it, recv, meth, args, kwargs, fr):
        g = it.reg.ghost_obj
        it.ctx.event("D", meth, list(args))
        if meth == "stop":
            it.ctx.prove(z3.Not(it.truth(g.fields["d_stop_called"])), "post:C17:dilator-stopped-once", {"kind": "post"})
            g.fields["d_stop_called"] = VBool(True)
        return NONE

    reg.boundary["DilatorB.*"] = d_call
    reg.boundary["Deferred.callback"] = lambda it, r, m, a, k, f: NONE

    # ---- Boss._result: ghost kind of the verdict
    def on_result(it, o, v):
        g = it.reg.ghost_obj
        v = it.force(v)
        if isinstance(v, VStr):
            c = it.concrete(v)
            kind = "happy" if c == "happy" else "empty" if c == "empty" else "other"
        elif isinstance(v, VObj):
            kind = RESULT_CLASS.get(v.cls, "other")
        else:
            kind = "other"
        if kind in ("happy", "lonely", "scary", "errory", "unwelcome"):
            it.ctx.prove(g.fields["result_kind"].z == RESULT_KINDS.index("empty"), "post:C08:verdict-recorded-once",
                         {"kind": "post", "src": "the verdict is recorded by the first closing cause only"})
        g.fields["result_kind"] = VInt(RESULT_KINDS.index(kind))

    reg.field_hooks[("Boss", "_result")] = on_result

    def on_stopping(it, o, v):
        it.reg.ghost_obj.fields["rc_stop_called"] = VBool(True)

    reg.field_hooks[("RendezvousConnector", "_stopping")] = on_stopping

    def on_input(it, obj, m, name, state, enter, args):
        g = it.reg.ghost_obj
        if m.cls == "Boss":
            flag = {"happy": "happy_seen", "scared": "scared_seen", "rx_error": "server_error_seen",
                    "rx_unwelcome": "unwelcome_seen"}.get(name)
            # "seen" means seen while the wormhole was still open: the verdict is fixed by what started the close;
            # a peer message or server error that shows up after that (the rows ignore it) does not change it
            if flag and state in ("S0_empty", "S1_lonely", "S2_happy"):
                g.fields[flag] = VBool(True)
            if name == "got_key" and state in ("S3_closing", "S4_closed"):
                g.fields["key_to_app"] = VInt(2)      # the key arrived after closing started: the row ignores it
        if m.cls == "Order" and name in ("got_pake", "got_non_pake") and len(args) >= 2:
            # C02/C03: what the Mailbox hands on to Order (and so to decryption and the application)
            side, phase = it.force(args[0]), it.force(args[1])
            ours = it.reg.cluster_engine._objs["B"].fields["_side"]
            pr = it.ctx.prove
            pr(side.z != ours.z, "post:C02:own-echo-never-forwarded",
               {"kind": "post", "src": "a message that carries our own side never reaches Order (it is an echo, not a peer message)"})
            pre = getattr(it.reg, "_pre_processed", None)
            if pre is not None:
                fresh = z3.And([z3.Not(z3.Select(pre, phase.z))] + [phase.z != q.z for q in it.reg._fwd])
                pr(fresh, "post:C02:forwarded-phase-is-new",
                   {"kind": "post", "src": "a phase is handed to Order only if it was not yet in Mailbox._processed (each phase "
                                           "string is accepted once, however often the server repeats it)"})
                it.reg._fwd.append(phase)
            ins = it.ctx.inputs
            if getattr(it.reg, "_entry_name", None) == "msg.message" and "side" in ins and "phase" in ins:
                pr(z3.And(side.z == ins["side"].z, phase.z == ins["phase"].z), "post:C02:labels-forwarded-unchanged",
                   {"kind": "post", "src": "Order gets the side and phase the server message carried (they select the key)"})
        if m.cls == "Terminator" and name == "close" and args:
            g.fields["close_mood"] = mood_enum(it, args[0])
        if m.cls == "Mailbox" and name == "add_message" and args:
            ph = it.force(args[0])
            c = it.concrete(ph) if isinstance(ph, VStr) else _NOCONST
            if c == "version":
                g.fields["version_added"] = VBool(True)
            elif c != "pake":
                # an application (or dilation) phase: our versions message is already in the mailbox,
                # so a server that preserves submission order shows the peer our versions first (C18)
                it.ctx.prove(it.truth(g.fields["version_added"]), "post:C18:version-submitted-before-any-data-phase",
                             {"kind": "post", "src": "the 'version' message is added to the mailbox before any data phase"})

    if reg.automat is None:
        from pyvc.automat import AutomatSupport
        reg.automat = AutomatSupport()
    reg.automat.on_input = on_input
    # contracts reused from C19 (modular): choose_words / get_completions carry loops
    from . import c19
    for c in c19.CONTRACTS:
        if c.target.endswith("PGPWordList.choose_words") or c.target.endswith("PGPWordList.get_completions"):
            reg.contracts[c.target] = c
    c19_reg = c19.regf()
    for k in ("odd_word", "even_word", "words_is_list_for", "completion_ok"):
        reg.spec_funcs[k] = c19_reg.spec_funcs[k]
    for k, v in c19_reg.ext_models.items():
        if k.startswith("global:wormhole/_wordlist.py"):
            reg.ext_models[k] = v
    return reg


def mood_enum(it, mood):
    mood = it.force(mood)
    c = it.concrete(mood) if isinstance(mood, VStr) else _NOCONST
    if c is not _NOCONST and c in MOODS:
        return VInt(MOODS.index(c))
    if isinstance(mood, VStr):
        e = z3.IntVal(0)
        for i, m in enumerate(MOODS):
            if i:
                e = z3.If(mood.z == z3.StringVal(m), i, e)
        return VInt(e)
    return VInt(0)


# ------------------------------------------------------------------------------------ entries
def G(objs, f):
    return objs["ghost"].fields[f]


def T_(it, objs, f):
    return it.truth(G(objs, f))


def setg(objs, f, val):
    objs["ghost"].fields[f] = VBool(val) if isinstance(val, bool) else val


def call(it, obj, meth, *args):
    return it.call(it.getattr(obj, meth), list(args), {})


def inp(it, name, t):
    v = it.fresh(t, name)
    it.ctx.inputs[name] = v
    return v


PER_CONNECTION = ["welcome_rx", "bound", "claim_sent", "claim_owed", "release_sent", "release_owed", "open_sent",
                  "close_sent", "close_owed", "allocate_sent", "allocate_owed", "list_owed"]


def api_guard(it, objs):
    # E4: after the application called close() it only calls close() again
    it.ctx.assume(z3.Not(T_(it, objs, "api_closed")))


def e_set_code(eng, it, objs):
    api_guard(it, objs)
    call(it, objs["B"], "set_code", inp(it, "code", "str"))


def e_allocate_code(eng, it, objs):
    api_guard(it, objs)
    n = inp(it, "code_length", "int")
    it.ctx.assume(n.z >= 0)
    call(it, objs["B"], "allocate_code", n)


def e_input_code(eng, it, objs):
    api_guard(it, objs)
    call(it, objs["B"], "input_code")
    setg(objs, "helper_given", True)


def helper_guard(it, objs):
    api_guard(it, objs)
    it.ctx.assume(T_(it, objs, "helper_given"))


def e_h_refresh(eng, it, objs):
    helper_guard(it, objs)
    call(it, objs["I"], "refresh_nameplates")


def e_h_np_completions(eng, it, objs):
    helper_guard(it, objs)
    call(it, objs["I"], "get_nameplate_completions", inp(it, "prefix", "str"))


def e_h_choose_nameplate(eng, it, objs):
    helper_guard(it, objs)
    call(it, objs["I"], "choose_nameplate", inp(it, "nameplate", "str"))


def e_h_word_completions(eng, it, objs):
    helper_guard(it, objs)
    call(it, objs["I"], "get_word_completions", inp(it, "prefix", "str"))


def e_h_choose_words(eng, it, objs):
    helper_guard(it, objs)
    call(it, objs["I"], "choose_words", inp(it, "words", "str"))


def e_send(eng, it, objs):
    api_guard(it, objs)
    call(it, objs["B"], "send", inp(it, "plaintext", "bytes"))


def e_close(eng, it, objs):
    call(it, objs["B"], "close")
    setg(objs, "api_closed", True)


def e_ws_open(eng, it, objs):
    # A connection can still open after RC.stop() as long as the ClientService has not reported that it stopped: the TCP
    # link of a (re)connection attempt may be up with the WebSocket negotiation unfinished (RC._ws is still None), and
    # autobahn completes the negotiation with bytes that were already on their way (seen with the real ClientService).
    for f in ("connected", "service_stopped", "init_fail_done"):
        it.ctx.assume(z3.Not(T_(it, objs, f)))
    for f in PER_CONNECTION:
        it.ctx.assume(z3.Not(T_(it, objs, f)))
    proto = it.fresh("opaque[WS]", "proto")
    setg(objs, "connected", True)
    setg(objs, "ever_connected", True)
    call(it, objs["RC"], "ws_open", proto)
    # C09: on every (re)connection each outstanding request is on the wire again
    check_resumed(it, objs, "ws_open")


def clear_connection(it, objs):
    for f in PER_CONNECTION:
        setg(objs, f, False)
    g = objs["ghost"].fields["added"]
    g.z = z3.K(StringS, z3.BoolVal(False))


def _session_survives(it, objs, rk0, open0, where):
    """C09: a connection loss (or a reconnection attempt that fails) is not an error of the session: it fixes no verdict
    and does not start the close; the ClientService keeps trying"""
    it.ctx.prove(z3.And(G(objs, "result_kind").z == rk0, z3.Implies(open0, _boss_open(it, objs)),
                        z3.Not(T_(it, objs, "error_cb_pending"))),
                 f"post:C09:{where}:connection-loss-is-not-a-verdict",
                 {"kind": "post", "src": "losing the server connection (or a reconnection attempt that fails) records no verdict, "
                                         "does not start closing and schedules no error report"})


def e_ws_close(eng, it, objs):
    it.ctx.assume(T_(it, objs, "connected"))
    setg(objs, "connected", False)
    clear_connection(it, objs)
    rk0, open0 = G(objs, "result_kind").z, _boss_open(it, objs)
    call(it, objs["RC"], "ws_close", VBool(True), VInt(1000), VStr("bye"))
    _session_survives(it, objs, rk0, open0, "ws_close")


def e_ws_close_failed_reconnect(eng, it, objs):
    """a reconnection attempt whose TCP connection comes up but whose WebSocket negotiation fails: autobahn delivers
    onClose() without onOpen() (RC._ws is still None); the ClientService will try again"""
    it.ctx.assume(z3.And(T_(it, objs, "ever_connected"), z3.Not(T_(it, objs, "connected")),
                         z3.Not(T_(it, objs, "service_stopped")), z3.Not(T_(it, objs, "init_fail_done"))))
    rk0, open0 = G(objs, "result_kind").z, _boss_open(it, objs)
    call(it, objs["RC"], "ws_close", VBool(False), VInt(1006), VStr("abnormal"))
    _session_survives(it, objs, rk0, open0, "failed-reconnect")


def e_ws_close_never_opened(eng, it, objs):
    for f in ("connected", "ever_connected", "service_stopped", "init_fail_done"):
        it.ctx.assume(z3.Not(T_(it, objs, f)))
    setg(objs, "service_stopped", True)
    setg(objs, "init_fail_done", True)
    call(it, objs["RC"], "ws_close", VBool(False), VInt(1006), VStr("abnormal"))


def e_stopped_cb(eng, it, objs):
    it.ctx.assume(z3.And(T_(it, objs, "stopped_pending"), z3.Not(T_(it, objs, "connected")),
                         z3.Not(T_(it, objs, "stopped_done"))))
    setg(objs, "stopped_done", True)
    setg(objs, "stopped_pending", False)
    setg(objs, "service_stopped", True)
    call(it, objs["RC"], "_stopped", NONE)


def e_initial_connection_failed(eng, it, objs):
    for f in ("connected", "ever_connected", "init_fail_done"):
        it.ctx.assume(z3.Not(T_(it, objs, f)))
    setg(objs, "init_fail_done", True)
    setg(objs, "service_stopped", True)
    f = VObj("Failure", {"value": VObj("ConnectionRefusedError", {"args": VTuple([])})})
    call(it, objs["RC"], "_initial_connection_failed", f)


def e_pending_error_cb(eng, it, objs):
    it.ctx.assume(T_(it, objs, "error_cb_pending"))
    setg(objs, "error_cb_pending", False)
    sce = VObj("ServerConnectionError", {"args": VTuple([])})
    call(it, objs["B"], "error", sce)


def e_d_stopped(eng, it, objs):
    it.ctx.assume(z3.And(T_(it, objs, "d_stop_called"), z3.Not(T_(it, objs, "d_stopped_done"))))
    setg(objs, "d_stopped_done", True)
    call(it, objs["T"], "stoppedD")


def deliver(it, objs, mtype, **fields):
    """a server message arrives on the current connection (through the real ws_message)"""
    it.ctx.assume(T_(it, objs, "connected"))
    if mtype != "welcome":
        it.ctx.assume(T_(it, objs, "welcome_rx"))
    d = {"type": VStr(mtype) if isinstance(mtype, str) else mtype, "id": VStr("msgid"),
         "server_tx": VReal(z3.Real(it.ctx.namer("server_tx")))}
    d.update(fields)
    payload = VStr(z3.String(it.ctx.namer("payload")), "bytes")
    payload.json_of = VDict(d)
    call(it, objs["RC"], "ws_message", payload)


def _boss_open(it, objs):
    """the Boss has not started closing (S0_empty / S1_lonely / S2_happy)"""
    cl = it.reg.cluster_engine._cl
    m = cl.am.machine_of(cl.classes["B"])
    st = objs["B"].fields["__state"].z
    return z3.Or([st == m.index(s) for s in ("S0_empty", "S1_lonely", "S2_happy")])


def e_msg_welcome(eng, it, objs):
    it.ctx.assume(z3.Not(T_(it, objs, "welcome_rx")))
    setg(objs, "welcome_rx", True)
    w = it.fresh("json", "welcome")
    it.ctx.assume(J.is_jdict(w.z))
    it.ctx.inputs["welcome"] = w
    was_open = _boss_open(it, objs)
    deliver(it, objs, "welcome", welcome=VJsonDict(w.z))
    # C08 "WelcomeError when the server said so": an error welcome that reaches a wormhole which is not yet closing
    # starts the close with that verdict (on the first connection or any later one)
    said = OJ.is_present(z3.Select(J.d(w.z), z3.StringVal("error")))
    it.ctx.prove(z3.Implies(z3.And(was_open, said),
                            z3.And(z3.Not(_boss_open(it, objs)), G(objs, "result_kind").z == RESULT_KINDS.index("unwelcome"))),
                 "post:C08:welcome-error-ends-with-WelcomeError",
                 {"kind": "post", "src": "an error welcome received before closing makes WelcomeError the verdict"})


def e_msg_claimed(eng, it, objs):
    it.ctx.assume(T_(it, objs, "claim_owed"))
    setg(objs, "claim_owed", False)
    mb = inp(it, "mailbox", "str")
    it.ctx.assume(z3.Length(mb.z) > 0)      # conformant server: mailbox ids are non-empty
    deliver(it, objs, "claimed", mailbox=mb)


def e_msg_released(eng, it, objs):
    # replies are FIFO with respect to the requests of this connection
    it.ctx.assume(z3.And(T_(it, objs, "release_owed"), z3.Not(T_(it, objs, "claim_owed"))))
    setg(objs, "release_owed", False)
    setg(objs, "claimed_maybe", False)
    deliver(it, objs, "released")


def e_msg_closed(eng, it, objs):
    it.ctx.assume(T_(it, objs, "close_owed"))
    setg(objs, "close_owed", False)
    setg(objs, "opened_maybe", False)
    deliver(it, objs, "closed")


def e_msg_allocated(eng, it, objs):
    it.ctx.assume(T_(it, objs, "allocate_owed"))
    setg(objs, "allocate_owed", False)
    np = inp(it, "nameplate", "str")
    # conformant server: the nameplate it allocates is one the client's own validator accepts
    vn = source.find_func(W + "_nameplate.py:validate_nameplate")
    try:
        it.call(VFunc(vn, None, None, "validate_nameplate"), [np], {})
    except PyRaise:
        raise PathEnd("non-conformant nameplate")
    deliver(it, objs, "allocated", nameplate=np)


def e_msg_nameplates(eng, it, objs):
    # one reply per list request; how many are outstanding is not counted: after a reply there may
    # or may not be another one owed
    it.ctx.assume(T_(it, objs, "list_owed"))
    if it.ctx.choose([z3.BoolVal(True), z3.BoolVal(True)], "more-lists-owed") == 1:
        setg(objs, "list_owed", False)
    l = z3.Const(it.ctx.namer("nameplates"), z3.SeqSort(J))
    i = z3.Int("i!np")
    ent = z3.Select(J.d(l[i]), z3.StringVal("id"))
    it.ctx.assume(z3.ForAll([i], z3.Implies(z3.And(0 <= i, i < z3.Length(l)),
                                            z3.And(J.is_jdict(l[i]), OJ.is_present(ent), J.is_jstr(OJ.v(ent))))))
    deliver(it, objs, "nameplates", nameplates=VSeq(l, "json"))


def _wrong_password_verdict(it, objs, was_scared):
    """C01 'each side that hears from the other closes with WrongPasswordError': a peer message that fails to decrypt
    (or a bad PAKE message) while the wormhole is open starts the close with that verdict"""
    it.ctx.prove(z3.Implies(z3.And(z3.Not(was_scared), T_(it, objs, "scared_seen")),
                            z3.And(z3.Not(_boss_open(it, objs)), G(objs, "result_kind").z == RESULT_KINDS.index("scary"))),
                 "post:C01:undecryptable-peer-message-ends-with-WrongPasswordError",
                 {"kind": "post", "src": "a peer message that does not decrypt makes WrongPasswordError the verdict"})


def e_msg_message(eng, it, objs):
    # any side / phase / body: our own echoes, the peer, a third participant, duplicates, any order
    it.ctx.assume(T_(it, objs, "open_sent"))
    was_scared = T_(it, objs, "scared_seen")
    deliver(it, objs, "message", side=inp(it, "side", "str"), phase=inp(it, "phase", "str"),
            body=inp(it, "body", "str"))
    _wrong_password_verdict(it, objs, was_scared)


def e_order_deliver_queued(eng, it, objs):
    """one of the messages Order had queued before the PAKE message arrived reaches Receive (the body of the real
    Order.drain loop); it happens inside RendezvousConnector.ws_message, whose handler reports any exception to the
    Boss and re-raises"""
    it.ctx.assume(T_(it, objs, "order_drain_pending"))
    it.ctx.assume(T_(it, objs, "connected"))
    side, phase, body = inp(it, "side", "str"), inp(it, "phase", "str"), inp(it, "body", "bytes")
    it.ctx.assume(phase.z != z3.StringVal("pake"))         # Order queues non-pake messages only
    # what is in Order's queue went through the Mailbox (so its phase is marked processed) and the queue holds each
    # phase once (the Mailbox forwards a phase once), so no phase is handed over twice
    mproc = objs["M"].fields["_processed"]
    qd = G(objs, "queued_delivered")
    it.ctx.assume(z3.And(mproc.z[phase.z], z3.Not(qd.z[phase.z])))
    qd.z = z3.Store(qd.z, phase.z, True)
    setg(objs, "order_drain_pending", VBool(z3.Bool(it.ctx.namer("more_queued"))))
    it.reg._in_queue_delivery = True
    was_scared = T_(it, objs, "scared_seen")
    try:
        call(it, objs["O"], "_deliver", side, phase, body)
        _wrong_password_verdict(it, objs, was_scared)
    except PyRaise as e:
        call(it, objs["B"], "error", e.exc)
        raise
    finally:
        it.reg._in_queue_delivery = False


def e_msg_error(eng, it, objs):
    it.ctx.assume(T_(it, objs, "bound"))
    orig = it.fresh("json", "orig")
    it.ctx.assume(J.is_jdict(orig.z))
    was_open = _boss_open(it, objs)
    deliver(it, objs, "error", error=inp(it, "error", "str"), orig=VJsonDict(orig.z))
    it.ctx.prove(z3.Implies(was_open, z3.And(z3.Not(_boss_open(it, objs)),
                                             G(objs, "result_kind").z == RESULT_KINDS.index("errory"))),
                 "post:C08:server-error-ends-with-ServerError",
                 {"kind": "post", "src": "a server error message received before closing makes ServerError the verdict"})


def e_msg_ack(eng, it, objs):
    deliver(it, objs, "ack")


def e_msg_unknown(eng, it, objs):
    t = inp(it, "mtype", "str")
    for known in ("welcome", "claimed", "released", "closed", "allocated", "nameplates", "message", "error", "ack"):
        it.ctx.assume(t.z != z3.StringVal(known))
    deliver(it, objs, t)


def check_resumed(it, objs, where):
    """C09 in safety form: what the machines believe is outstanding has been (re)sent on this connection"""
    cl = it.reg.cluster_engine._cl
    N, M, A, L = objs["N"], objs["M"], objs["A"], objs["L"]

    def in_state(o, nm, *states):
        m = cl.am.machine_of(cl.classes[nm])
        return z3.Or([o.fields["__state"].z == m.index(s) for s in states])
    t = lambda f: T_(it, objs, f)      # noqa
    pr = it.ctx.prove
    pr(t("bound"), f"post:C09:{where}:bound", {"kind": "post", "src": "bind sent on the new connection"})
    pr(z3.Implies(in_state(N, "N", "S2B"), t("claim_sent")), f"post:C09:{where}:claim-reissued",
       {"kind": "post", "src": "Nameplate S2B (claim unanswered) => claim sent on this connection"})
    pr(z3.Implies(in_state(N, "N", "S4B"), t("release_sent")), f"post:C09:{where}:release-reissued",
       {"kind": "post", "src": "Nameplate S4B (release unanswered) => release sent on this connection"})
    pr(z3.Implies(in_state(M, "M", "S2B"), t("open_sent")), f"post:C09:{where}:mailbox-reopened",
       {"kind": "post", "src": "Mailbox S2B => open sent on this connection"})
    pr(z3.Implies(in_state(M, "M", "S3B"), t("close_sent")), f"post:C09:{where}:close-reissued",
       {"kind": "post", "src": "Mailbox S3B (close unanswered) => close sent on this connection"})
    pr(z3.Implies(in_state(A, "A", "S1B_allocating_connected"), t("allocate_sent")), f"post:C09:{where}:allocate-reissued",
       {"kind": "post", "src": "Allocator S1B => allocate sent on this connection"})
    pr(z3.Implies(in_state(L, "L", "S1B_wanting_connected"), t("list_owed")), f"post:C09:{where}:list-reissued",
       {"kind": "post", "src": "Lister S1B => list sent on this connection"})
    # every message the server has not echoed is re-submitted
    po = M.fields["_pending_outbound"]
    added = G(objs, "added")
    k = z3.Const("k!po", StringS)
    pr(z3.Implies(in_state(M, "M", "S2B"), z3.ForAll([k], z3.Implies(po.present[k], added.z[k]))),
       f"post:C09:{where}:pending-resubmitted",
       {"kind": "post", "src": "Mailbox S2B => every phase in _pending_outbound was added on this connection"})


ENTRIES = [
    Entry("api.set_code", e_set_code, ("KeyFormatError", "OnlyOneCodeError")),
    Entry("api.allocate_code", e_allocate_code, ("OnlyOneCodeError",)),
    Entry("api.input_code", e_input_code, ("OnlyOneCodeError",)),
    Entry("api.send", e_send),
    Entry("api.close", e_close),
    Entry("helper.refresh_nameplates", e_h_refresh, ("AlreadyChoseNameplateError",)),
    Entry("helper.get_nameplate_completions", e_h_np_completions, ("AlreadyChoseNameplateError",)),
    Entry("helper.choose_nameplate", e_h_choose_nameplate, ("AlreadyChoseNameplateError", "KeyFormatError")),
    Entry("helper.get_word_completions", e_h_word_completions, ("MustChooseNameplateFirstError", "AlreadyChoseWordsError")),
    Entry("helper.choose_words", e_h_choose_words, ("MustChooseNameplateFirstError", "AlreadyChoseWordsError")),
    Entry("ws.open", e_ws_open),
    Entry("ws.close", e_ws_close),
    Entry("ws.close_never_opened", e_ws_close_never_opened),
    Entry("ws.close_failed_reconnect", e_ws_close_failed_reconnect),
    Entry("service.stopped", e_stopped_cb),
    Entry("service.initial_connection_failed", e_initial_connection_failed),
    Entry("service.pending_error_callback", e_pending_error_cb),
    Entry("dilator.stopped", e_d_stopped),
    Entry("msg.welcome", e_msg_welcome),
    Entry("msg.claimed", e_msg_claimed),
    Entry("msg.released", e_msg_released),
    Entry("msg.closed", e_msg_closed),
    Entry("msg.allocated", e_msg_allocated),
    Entry("msg.nameplates", e_msg_nameplates),
    Entry("msg.message", e_msg_message),
    Entry("msg.error", e_msg_error),
    Entry("msg.ack", e_msg_ack),
    Entry("msg.unknown", e_msg_unknown),
]


def _not_while_draining(fn):
    def run(eng, it, objs):
        it.ctx.assume(z3.Not(T_(it, objs, "order_drain_pending")))
        return fn(eng, it, objs)
    return run


ENTRIES = [Entry(e.name, _not_while_draining(e.run), e.allowed_exc) for e in ENTRIES] + \
    [Entry("order.deliver_queued", e_order_deliver_queued)]


def _two_state(fn, name):
    """two-state obligations of C02/C03 (no invariant needed: they compare the state at the start and at the end of one
    entry point): the dedup set never loses a phase, every phase handed to Order is recorded in it, and a message that
    the server has not echoed stays in Mailbox._pending_outbound (so that it is re-submitted, C09)"""
    def run(eng, it, objs):
        M = objs["M"]
        proc, po = M.fields["_processed"], M.fields["_pending_outbound"]
        pre_proc, pre_present = proc.z, po.present
        B = objs["B"]
        pre_tx, pre_rx = B.fields["_next_tx_phase"], B.fields["_next_rx_phase"]
        it.reg._pre_processed, it.reg._fwd, it.reg._entry_name = pre_proc, [], name
        ncuts = len(getattr(eng, "_cuts_seen", ()))
        try:
            fn(eng, it, objs)
        finally:
            it.reg._pre_processed = None
        if len(getattr(eng, "_cuts_seen", ())) != ncuts:
            # the path crossed a loop cut inside cluster code: fields the loop may modify were havocked there, so the
            # state at the end is not comparable with the state at the start (Send.drain's loop is under its own
            # contract in C03: it only calls Mailbox.add_message)
            return
        pr = it.ctx.prove
        # C03: message numbers are never reused: the counters that label outgoing messages / select the next message to
        # hand to the application only move forward (a reset would give two messages the same phase, or deliver one twice)
        if isinstance(pre_tx, VInt) and isinstance(B.fields["_next_tx_phase"], VInt):
            pr(B.fields["_next_tx_phase"].z >= pre_tx.z, "post:C03:tx-phase-counter-never-goes-back",
               {"kind": "post", "src": "Boss._next_tx_phase never decreases (no phase number is given to two messages)"})
            pr(B.fields["_next_rx_phase"].z >= pre_rx.z, "post:C03:rx-phase-counter-never-goes-back",
               {"kind": "post", "src": "Boss._next_rx_phase never decreases (no inbound phase is delivered twice)"})
        k = z3.Const(it.ctx.namer("k!any_phase"), StringS)
        pr(z3.Implies(z3.Select(pre_proc, k), z3.Select(proc.z, k)), "post:C02:processed-never-shrinks",
           {"kind": "post", "src": "no phase ever leaves Mailbox._processed (a replayed or re-delivered message stays rejected, "
                                   "also across reconnects)"})
        for q in it.reg._fwd:
            pr(z3.Select(proc.z, q.z), "post:C02:forwarded-phase-recorded",
               {"kind": "post", "src": "a phase handed to Order is in Mailbox._processed afterwards"})
        ins = it.ctx.inputs
        echo = z3.BoolVal(False)
        if name == "msg.message" and "side" in ins and "phase" in ins:
            echo = z3.And(ins["side"].z == objs["B"].fields["_side"].z, ins["phase"].z == k)
        pr(z3.Implies(z3.Select(pre_present, k), z3.Or(z3.Select(po.present, k), echo)), "post:C03:unechoed-message-stays-pending",
           {"kind": "post", "src": "a message leaves Mailbox._pending_outbound only when the server echoes that phase with our own "
                                   "side; until then it is re-submitted on every new connection"})
    return run


ENTRIES = [Entry(e.name, _two_state(e.run, e.name), e.allowed_exc) for e in ENTRIES]


TX_GHOST = ["bound", "claim_sent", "claim_owed", "release_sent", "release_owed", "open_sent", "close_sent", "close_owed",
            "allocate_sent", "allocate_owed", "list_owed", "added", "tx_close_mood", "claimed_maybe", "opened_maybe"]


def make_reg_delegated():
    return make_reg(delegated=True)


def engine_delegated():
    """the same cluster with the application in delegated mode: every W.* callback may re-enter send() / close()"""
    return engine(delegated=True)


def engine(delegated=False):
    if delegated:
        e = MEngine("mailbox_delegated", make_reg_delegated, make_spec, ENTRIES, os.path.join(ROOT, "inv", "mailbox_delegated.json"))
        # what a re-entrant application callback may run (for the static may-modify walk at loop cuts)
        e.boundary_reenters = {"WormholeApp.*": [("B", "send"), ("B", "close")]}
    else:
        e = MEngine("mailbox", make_reg, make_spec, ENTRIES, os.path.join(ROOT, "inv", "mailbox.json"))
    # ghost state that boundary models / hooks may change (used when a loop in cluster code is cut: everything
    # its body may change is havocked); an undeclared boundary call counts as touching all ghost state
    e.ghost_effects = {
        "WS.sendMessage": TX_GHOST,
        "WormholeApp.got_code": ["w_code"], "WormholeApp.got_key": ["w_key", "key_to_app"],
        "WormholeApp.got_verifier": ["w_verifier"], "WormholeApp.got_versions": ["w_versions", "versions_via"],
        "WormholeApp.received": [], "WormholeApp.got_welcome": [], "WormholeApp.closed": ["w_closed"],
        "WormholeApp.*": ["w_code", "w_key", "w_verifier", "w_versions", "w_closed", "versions_via", "key_to_app"],
        "DilatorB.*": ["d_stop_called", "d_stopped_done"],
        "SecretBox.decrypt": ["good_decrypt"], "SecretBox.encrypt": [], "SPAKE2.start": [], "SPAKE2.finish": [],
        "sha256.digest": [], "ClientService.*": [],
        "DeferredLike.*": ["stopped_pending", "stopped_done", "service_stopped", "error_cb_pending"],
        "*.addBoth": ["stopped_pending", "stopped_done", "service_stopped", "error_cb_pending"],
        "*.addCallback": ["stopped_pending", "stopped_done", "service_stopped", "error_cb_pending"],
        "*.addErrback": [],
        "*.decrypt": ["good_decrypt"], "*.encrypt": [],
        # pure library calls on module objects / locals that occur in the cluster's source
        "*.err": [], "*.msg": [], "*.maybeDeferred": [], "*.search": [], "*.fullmatch": [], "*.upper": [], "*.urandom": [],
        "*.Deferred": [], "*.succeed": [], "*.flush": [], "*.setProtocolOptions": [], "*.deferLater": [], "*.random": [],
        "*.current_thread": [], "*.ClientService": [], "*.HostnameEndpoint": [], "*.clientFromString": [],
        "*.AlreadyChoseNameplateError": [], "*.AlreadyChoseWordsError": [], "*.MustChooseNameplateFirstError": [],
        "*.ServerConnectionError": [], "*._UnknownMessageTypeError": [],
        "*.callback": [], "*.append": [], "*.add": [], "*.pop": [], "*.popleft": [], "*.startswith": [], "*.get": [],
        "*.encode": [], "*.split": [], "*.items": [], "*.group": [], "*.digest": [], "*.lower": [], "*.join": [],
        "PGPWordList.*": [], "Helper.*": [], "Undeclared__wordlist.*": [],
        "func:decrypt_data": ["good_decrypt"],
    }
    e.input_ghost_effects = {("Boss", "happy"): ["happy_seen"], ("Boss", "scared"): ["scared_seen"],
                             ("Boss", "rx_error"): ["server_error_seen"], ("Boss", "rx_unwelcome"): ["unwelcome_seen"],
                             ("Terminator", "close"): ["close_mood"], ("Boss", "got_key"): ["key_to_app"], ("Mailbox", "add_message"): ["version_added"]}
    e.field_ghost_effects = {("Boss", "_result"): ["result_kind"], ("RendezvousConnector", "_stopping"): ["rc_stop_called"]}
    e.local_types = {W + "_rendezvous.py:RendezvousConnector._response_handle_nameplates": {"nids": "set[json]"},
                     W + "_input.py:Input._get_nameplate_completions": {"completions": "set[str]"}}
    return e
