"""C09 - the mailbox session survives connection loss: nothing lost, nothing repeated.

Machine level (mailbox-cluster engine): on every (re)connection the client binds first and
each outstanding request is on the wire again (post:C09:* obligations checked at the end of
ws_open and at every websocket send); the pieces that need data reasoning are function-level:
Mailbox._drain re-submits every message the server has not echoed, unchanged."""
import z3

from pyvc.contract import Contract
from pyvc.runner import ContractTask
from pyvc.mrun import ClusterTask
from pyvc.values import *   # noqa
from .common import make_registry, install_trace_funcs, register_classes

from .mailbox_ready import CLUSTER_READY

PROP = "C09"

CONTRACTS = [
    Contract("wormhole/_mailbox.py:Mailbox._drain", props=[PROP], params={},
             self_fields={"_pending_outbound": "dict[str,bytes]", "_RC": "obj[IRendezvousConnector]"},
             internal_ensures=[("every-pending-message-resubmitted-unchanged",
                                "forall(lambda p: implies(p in self._pending_outbound, p in gadded and "
                                "gbody[p] == self._pending_outbound[p]), 'str')"),
                               ("nothing-else-submitted", "forall(lambda p: implies(p in gadded, p in self._pending_outbound), 'str')")],
             loops={0: {"header": "for (phase, body) in self._pending_outbound.items()",
                        "ghost_init": {"gadded": "empty_strset()", "gbody": "empty_strmap()"},
                        "ghost_update": {"gadded": "set_with(gadded, iter_bcall_arg('tx_add', 0))",
                                         "gbody": "map_with(gbody, iter_bcall_arg('tx_add', 0), iter_bcall_arg('tx_add', 1))"},
                        "body_ensures": ["iter_bcall_arg('tx_add', 0) == _cur[0]", "iter_bcall_arg('tx_add', 1) == _cur[1]"],
                        "invariant": ["self._pending_outbound == at_entry(self._pending_outbound)",
                                      "forall(lambda p: implies(p in _done, p in gadded and gbody[p] == self._pending_outbound[p]), 'str')",
                                      "forall(lambda p: implies(p in gadded, p in _done), 'str')"]}},
             note="ghost gadded/gbody: phases and bodies handed to RC.tx_add so far; the loop visits every pending phase once"),
]


# ---------------------------------------------------------------------------------------------------------------
# The re-send set as a class invariant of the Mailbox machine: _pending_outbound == submitted - echoed.  The three
# inputs that touch it are verified THROUGH THE REAL TRANSITION TABLE (state set first, then the row's outputs, real
# bodies): a row that loses its output, an output moved elsewhere, or a body that retires the wrong entries fails here.
MB = "wormhole/_mailbox.py:Mailbox."
MB_FIELDS = {"__state": "state", "_pending_outbound": "dict[str,bytes]", "_mailbox": "opt[str]", "_mood": "opt[str]",
             "_side": "str", "_processed": "set[str]",
             "_RC": "obj[IRendezvousConnector]", "_N": "obj[INameplate]", "_O": "obj[IOrder]", "_T": "obj[ITerminator]"}
OPEN_OR_EARLIER = "'S0A', 'S0B', 'S1A', 'S2A', 'S2B'"
OTHERS_KEPT = ("forall(lambda p: implies(p != phase, (p in self._pending_outbound) == (p in old(self._pending_outbound)) and "
               "implies(p in self._pending_outbound, self._pending_outbound[p] == old(self._pending_outbound)[p])), 'str')")
ALL_KEPT = ("forall(lambda p: (p in self._pending_outbound) == (p in old(self._pending_outbound)) and "
            "implies(p in self._pending_outbound, self._pending_outbound[p] == old(self._pending_outbound)[p]), 'str')")

MB_INV = ("(not in_state(self, 'S1A', 'S2A', 'S2B', 'S3A', 'S3B') or bool(self._mailbox)) and "
          "(not in_state(self, 'S3A', 'S3B') or bool(self._mood))")


def mbc(name, params, **kw):
    """a Mailbox input under contract: the representation invariant (mailbox id known from S1 on, mood recorded while
    closing - what the asserts in RC_tx_open / RC_tx_close rely on) is assumed at entry and re-established at exit, so
    it is an invariant of the machine, not an assumption"""
    kw["requires"] = [MB_INV] + list(kw.get("requires", []))
    kw["ensures"] = list(kw.get("ensures", [])) + [("representation-invariant-kept", MB_INV)]
    return Contract(MB + name, props=[PROP], params=params, self_fields=MB_FIELDS, replay={"driver": "machine_replay:run"}, **kw)


MACHINE_CONTRACTS = [
    mbc("add_message", {"phase": "str", "body": "bytes"},
             modifies=["__state", "_pending_outbound"],
             ensures=[("remembered-until-echoed-while-the-mailbox-is-not-closing",
                       f"implies(old(in_state(self, {OPEN_OR_EARLIER})), phase in self._pending_outbound and "
                       "self._pending_outbound[phase] == body)"),
                      ("other-pending-messages-kept", OTHERS_KEPT),
                      ("submitted-at-once-iff-the-mailbox-is-open-on-this-connection",
                       "implies(old(in_state(self, 'S2B')), bcall_names() == ['tx_add'] and bcall_arg('tx_add', 0, 0) == phase and "
                       "bcall_arg('tx_add', 0, 1) == body) and implies(not old(in_state(self, 'S2B')), len(bcall_names()) == 0)"),
                      ("state-kept", "state_index(self) == old(state_index(self))")],
             note="every message handed to the Mailbox before it starts closing joins the re-send set (so `connected` re-submits "
                  "it, C09's _drain contract) and goes out at once only if the mailbox is open on the current connection"),
    mbc("rx_message_ours", {"phase": "str", "body": "bytes"},
             modifies=["__state", "_pending_outbound"],
             raises_exactly={"NoTransition": "in_state(self, 'S0A', 'S0B', 'S1A', 'S2A', 'S3A')"},
             ensures=[("the-echoed-phase-leaves-the-re-send-set-while-open",
                       "implies(old(in_state(self, 'S2B')), phase not in self._pending_outbound)"),
                      ("nothing-else-leaves-it", OTHERS_KEPT),
                      ("nothing-sent", "len(bcall_names()) == 0"), ("state-kept", "state_index(self) == old(state_index(self))")],
             note="only the server's echo of OUR message of that phase retires it"),
    mbc("rx_message_theirs", {"side": "str", "phase": "str", "body": "bytes"}, modifies=["__state", "_processed"],
             raises_exactly={"NoTransition": "in_state(self, 'S0A', 'S0B', 'S1A', 'S2A', 'S3A')"},
             ensures=[("a-peer-message-retires-nothing", ALL_KEPT),
                      ("state-kept", "state_index(self) == old(state_index(self))")],
             note="the peer's message of the same phase name says nothing about whether the server has ours"),
    mbc("lost", {}, modifies=["__state"],
             raises_exactly={"NoTransition": "in_state(self, 'S0A', 'S1A', 'S2A', 'S3A')"},
             ensures=[("nothing-forgotten-on-connection-loss", ALL_KEPT), ("nothing-sent", "len(bcall_names()) == 0")]),
    mbc("connected", {}, modifies=["__state"],
             raises_exactly={"NoTransition": "in_state(self, 'S0B', 'S2B', 'S3B')"},
             ensures=[("re-send-set-untouched-by-reconnecting", ALL_KEPT),
                      ("open-mailbox-is-reopened-first",
                       "implies(old(in_state(self, 'S1A', 'S2A')), len(bcall_names()) >= 1 and bcall_names()[0] == 'tx_open' and "
                       "bcall_arg('tx_open', 0, 0) == self._mailbox and bcalls('tx_open') == 1 and bcalls('tx_close') == 0)")],
             note="_drain is applied through its contract (proved above on the real loop)"),
    mbc("got_mailbox", {"mailbox": "str"}, requires=["len(mailbox) > 0"], modifies=["__state", "_mailbox"],
        raises_exactly={"NoTransition": "not in_state(self, 'S0A', 'S0B')"},
        ensures=[("re-send-set-untouched", ALL_KEPT), ("mailbox-recorded", "self._mailbox == mailbox")],
        note="the mailbox id comes from the server's `claimed` reply (non-empty for a conformant server)"),
    mbc("close", {"mood": "str"}, requires=["len(mood) > 0"], modifies=["__state", "_mood"],
        raises_exactly={"NoTransition": "in_state(self, 'S3A')"},
        ensures=[("re-send-set-untouched", ALL_KEPT),
                 ("mood-recorded-when-a-close-has-to-be-sent", "implies(old(in_state(self, 'S2A', 'S2B')), self._mood == mood)")],
        note="Boss passes one of the five mood literals"),
    mbc("rx_closed", {}, modifies=["__state"], raises_exactly={"NoTransition": "not in_state(self, 'S3B')"},
        ensures=[("re-send-set-untouched", ALL_KEPT)]),
]


def regf_machine():
    from pyvc.automat import AutomatSupport
    reg = regf()
    register_classes(reg, ["wormhole/_mailbox.py"])
    reg.automat = AutomatSupport()
    reg.automat.notransition_raises = True
    for c in MACHINE_CONTRACTS:
        reg.contracts[c.target] = c
    reg.spec_funcs["state_index"] = lambda it, o: VInt(it.force(o).fields["__state"].z)
    return reg


def regf():
    reg = make_registry()
    install_trace_funcs(reg)
    register_classes(reg, ["wormhole/errors.py"])
    for c in CONTRACTS:
        reg.contracts[c.target] = c
    sf = reg.spec_funcs
    sf["empty_strset"] = lambda it: VSet(z3.K(StringS, z3.BoolVal(False)), "str")

    def empty_strmap(it):
        vals = z3.Const(it.ctx.namer("emptyval"), z3.ArraySort(StringS, StringS))
        return VMap(z3.K(StringS, z3.BoolVal(False)), vals, "str", "bytes")

    sf["empty_strmap"] = empty_strmap
    sf["set_with"] = lambda it, s, x: VSet(z3.Store(s.z, it.force(x).z, True), "str")
    sf["map_with"] = lambda it, m, k, v: VMap(z3.Store(m.present, it.force(k).z, True), z3.Store(m.val, it.force(k).z, it.force(v).z),
                                              "str", "bytes")

    def iter_bcall_arg(it, name, i):
        name, i = it.concrete(name), it.concrete(i)
        tr = it.ctx.trace
        start = max([k for k, e in enumerate(tr) if e[0] == "loop-body-start"] + [-1])
        evs = [e for e in tr[start + 1:] if e[0] == "bcall" and e[1][1] == name]
        it.ctx.prove(z3.BoolVal(len(evs) == 1), f"exactly-one[{name}]-per-iteration",
                     {"kind": "trace", "definite": True, "src": f"exactly one {name}() call per pending message (found {len(evs)})"})
        if not evs:
            return it.fresh("str" if i == 0 else "bytes", "no_event")
        return evs[-1][1][2][i]

    sf["iter_bcall_arg"] = iter_bcall_arg
    return reg


RECONNECT_MACHINES = ("Nameplate", "Mailbox", "Allocator", "Lister", "Order", "Key", "_SortedKey", "Receive")


def select(name):
    """C09's share of the cluster obligations: everything outstanding is re-issued on a new connection (post:C09:*);
    the machines that live across connections never get an input they have no row for (a lost/connected in the
    wrong half, a peer message handed on twice after the mailbox was re-opened); the application-visible events
    stay once-only (post:C18:*once)"""
    if name.startswith("post:C09:"):
        return True
    if name.startswith("nodom:") and name[len("nodom:"):].split(".")[0] in RECONNECT_MACHINES:
        return True
    return name.startswith("post:C18:") and "once" in name


# ---------------------------------------------------------------------------------------------------------------
# The reconnect contract of the four machines that live across connections, read off the real transition tables.
# "A = disconnected, B = connected; the numeral is the durable part": `lost` must keep the numeral and do nothing,
# `connected` must keep (or advance) the numeral and put exactly the outstanding request back on the wire.
RECONNECT = {
    ("wormhole/_nameplate.py", "Nameplate"): {
        "connected": {"S0A": ("S0B", []), "S1A": ("S2B", ["RC_tx_claim"]), "S2A": ("S2B", ["RC_tx_claim"]),
                      "S3A": ("S3B", []), "S4A": ("S4B", ["RC_tx_release"]), "S5A": ("S5B", [])},
        "lost": {"S0B": "S0A", "S2B": "S2A", "S3B": "S3A", "S4B": "S4A", "S5B": "S5A"}},
    ("wormhole/_mailbox.py", "Mailbox"): {
        "connected": {"S0A": ("S0B", []), "S1A": ("S2B", ["RC_tx_open", "drain"]), "S2A": ("S2B", ["RC_tx_open", "drain"]),
                      "S3A": ("S3B", ["RC_tx_close"]), "S4A": ("S4B", [])},
        "lost": {"S0B": "S0A", "S2B": "S2A", "S3B": "S3A", "S4B": "S4A"}},
    ("wormhole/_allocator.py", "Allocator"): {
        "connected": {"S0A_idle": ("S0B_idle_connected", []), "S1A_allocating": ("S1B_allocating_connected", ["RC_tx_allocate"]),
                      "S2_done": ("S2_done", [])},
        "lost": {"S0B_idle_connected": "S0A_idle", "S1B_allocating_connected": "S1A_allocating", "S2_done": "S2_done"}},
    ("wormhole/_lister.py", "Lister"): {
        "connected": {"S0A_idle_disconnected": ("S0B_idle_connected", []),
                      "S1A_wanting_disconnected": ("S1B_wanting_connected", ["RC_tx_list"])},
        "lost": {"S0B_idle_connected": "S0A_idle_disconnected", "S1B_wanting_connected": "S1A_wanting_disconnected"}},
}


def reconnect_tables_task(tier, seed):
    import time
    from pyvc import source
    from pyvc.automat import Machine
    from pyvc.runner import ob
    t0 = time.time()
    obs = []

    def chk(name, cond, src):
        obs.append(ob(name, "discharged" if cond else "failed", "evaluation", 0.0, False, None,
                      {"kind": "data", "src": src, "definite": True}, smt_hash=name))

    for (rel, cls), want in RECONNECT.items():
        m = Machine(source.load_module(rel).classes[cls])
        canon = lambda s_: m.aliases.get(s_, s_) if hasattr(m, "aliases") else s_      # noqa
        rows = m.table
        for st, (to, outs) in want["connected"].items():
            row = rows.get((canon(st), "connected"))
            chk(f"{rel}:{cls}.table.connected@{st}", row is not None and canon(row[0]) == canon(to) and list(row[1]) == outs,
                f"{st} --connected--> {to} re-issuing exactly {outs} (found {None if row is None else (row[0], list(row[1]))})")
        for st, to in want["lost"].items():
            row = rows.get((canon(st), "lost"))
            chk(f"{rel}:{cls}.table.lost@{st}", row is not None and canon(row[0]) == canon(to) and list(row[1]) == [],
                f"{st} --lost--> {to} with no output (found {None if row is None else (row[0], list(row[1]))})")
        # no other row handles connected / lost (a new one would be outside this contract)
        extra = sorted(k for k in rows if k[1] in ("connected", "lost") and
                       k[0] not in {canon(x) for x in list(want["connected"]) + list(want["lost"])})
        chk(f"{rel}:{cls}.table.no-other-connectivity-rows", not extra, f"connected/lost are handled only in the states above (extra: {extra})")
    return {"obligations": obs, "info": {"target": "Nameplate/Mailbox/Allocator/Lister <transition tables>", "sha": None,
                                         "lines": None, "paths": 1, "wall": round(time.time() - t0, 3)}}


def resend_order_task(tier, seed):
    """Mailbox._drain re-submits the pending messages in the order they were added (Python dicts iterate in insertion order): the
    loop must run over the dict itself.  The symbolic dict model has no iteration order (loops over dicts are verified for
    an arbitrary order), so this clause is decided on the loop header of the real function: an order-destroying wrapper
    (sorted / reversed / set ...) fails it, a form this check does not recognise is undecided."""
    import ast
    import time
    from pyvc import source
    from pyvc.runner import ob
    t0 = time.time()
    fd = source.find_func("wormhole/_mailbox.py:Mailbox._drain")
    name = "wormhole/_mailbox.py:Mailbox._drain.resubmits-in-insertion-order"
    status, why = "unknown", "no loop over self._pending_outbound found"
    if fd is not None:
        loops = [n for n in ast.walk(fd.node) if isinstance(n, (ast.For, ast.comprehension))]
        for lp in loops:
            it_ = lp.iter
            txt = ast.unparse(it_)
            if "_pending_outbound" not in txt:
                continue
            plain = {"self._pending_outbound", "self._pending_outbound.items()", "self._pending_outbound.keys()",
                     "list(self._pending_outbound)", "list(self._pending_outbound.items())", "list(self._pending_outbound.keys())",
                     "tuple(self._pending_outbound.items())", "self._pending_outbound.copy().items()",
                     "dict(self._pending_outbound).items()"}
            bad = ("sorted(", "reversed(", "set(", "frozenset(", "random.", "shuffle", "[::-1]", "heapq", "max(", "min(")
            if txt in plain:
                status, why = "discharged", f"iterates {txt}"
            elif any(b in txt for b in bad):
                status, why = "failed", f"iterates {txt}: not the insertion order"
            else:
                status, why = "unknown", f"iterates {txt}: not a form this check recognises"
            break
    o = ob(name, status, "evaluation", 0.0, False, None,
           {"kind": "data", "definite": True, "src": "Mailbox._drain iterates the re-send dict itself (insertion order: 'version' "
                                                     f"before any data phase) - {why}"}, smt_hash=name)
    return {"obligations": [o], "info": {"target": "wormhole/_mailbox.py:Mailbox._drain <loop header>", "sha": fd.sha if fd else None,
                                         "lines": None, "paths": 1, "wall": round(time.time() - t0, 3)}}


def tasks():
    import os
    from pyvc.runner import FuncTask
    nocl = (not CLUSTER_READY) or bool(os.environ.get('VERIF_NO_CLUSTER'))
    from . import c03
    shared = [t for t in c03.tasks() if getattr(t, "contract", None) is not None and
              t.contract.target.endswith(("Mailbox.queue", "Mailbox.dequeue", "Mailbox.RC_tx_add", "Mailbox.rx_message",
                                          "Mailbox.N_release_and_accept"))]
    return [ContractTask(c, regf) for c in CONTRACTS] + [ContractTask(c, regf_machine) for c in MACHINE_CONTRACTS] + shared + \
        [FuncTask("reconnect-tables", reconnect_tables_task, True, "data"),
         FuncTask("resend-order", resend_order_task, True, "data")] + \
        ([] if nocl else [ClusterTask("mailbox-cluster", "props.mailbox", "engine", select, "mailbox_history:search")])


TRUSTED = ["z3", "pyvc semantics", "Automat dispatch semantics (pyvc/automat.py)",
           "environment contract E1-E5 (DESIGN 3.3): per-connection ghost flags are set by the model of ws.sendMessage and "
           "cleared by ws_close"]
ASSUMPTIONS = ["liveness ('once both sides stay connected the key exchange completes and every message is delivered') is not "
               "decided: the obligations show that nothing the client must send is missing on the current connection",
               "'no application-visible event is lost or repeated because of a reconnect' rests on the dedup (C02/C03), the "
               "once-only observers (C18) and the invariants here",
               "Mailbox._drain is used by the cluster engine through the contract proved here (assume-guarantee)"]
