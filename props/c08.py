"""C08 - close() completes once, with the right verdict, and frees server resources.

Machine level (mailbox-cluster engine over the real tables and output bodies): closed() is
delivered at most once and nothing reaches the application after it; the verdict table
(happy only after a valid peer message, lonely only without one, scary only after an
undecryptable message / bad PAKE, errory / unwelcome only when the server said so; recorded by
the first closing cause); a normal closed() only after the Terminator reached S_stopped with
the nameplate released or never claimed, the mailbox closed or never opened and the server
connection stopped; the mood sent in the server 'close' is the Boss's mood; in every closing
state the needed command is on the wire of the current connection (shared with C09).
Function level: _DeferredWormhole.closed/close (C18's tasks, run here too)."""
from pyvc.mrun import ClusterTask

from .mailbox_ready import CLUSTER_READY

PROP = "C08"


def select(name):
    return name.startswith("post:C08:") or name in ("post:C09:ws_open:release-reissued", "post:C09:ws_open:close-reissued") \
        or name.startswith("nodom:Terminator.") or name.startswith("nodom:Boss.closed")


def tasks():
    import os
    nocl = (not CLUSTER_READY) or bool(os.environ.get('VERIF_NO_CLUSTER'))
    out = ([] if nocl else [ClusterTask("mailbox-cluster", "props.mailbox", "engine", select, "mailbox_history:search")])
    from . import c18
    out += [t for t in c18.tasks() if getattr(t, "contract", None) is not None and
            t.contract.target.endswith(("_DeferredWormhole.closed", "_DeferredWormhole.close"))]
    return out


TRUSTED = ["z3", "pyvc semantics", "Automat dispatch semantics (pyvc/automat.py)",
           "environment contract E1-E5 (DESIGN 3.3) incl. Twisted ClientService.stopService (fires at once when idle, after "
           "ws_close when connected)"]
ASSUMPTIONS = ["eventual completion of closing (needs server replies / a reconnection) is liveness: not decided",
               "application callbacks do not re-enter synchronously (Deferred API)"]
