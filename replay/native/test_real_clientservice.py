from unittest import mock
from twisted.application import internet
from twisted.internet import defer
from twisted.internet.error import ConnectionRefusedError
from twisted.internet.task import Clock
from twisted.python import log
from twisted.python.failure import Failure
from wormhole import wormhole
from wormhole._rendezvous import RendezvousConnector


class PendingEndpoint:
    """connect() returns a Deferred that the test fires (or fails) later"""
    def __init__(self):
        self.ds = []
    def connect(self, factory):
        d = defer.Deferred()
        self.ds.append(d)
        return d


def make(clock, endpoint):
    delegate = mock.Mock()
    real_cs = internet.ClientService
    def cs(ep, f):
        return real_cs(ep, f, clock=clock)
    with mock.patch.object(RendezvousConnector, "_make_endpoint", return_value=endpoint), \
            mock.patch("wormhole._rendezvous.internet.ClientService", cs):
        w = wormhole.create("appid", "ws://host:4000/v1", clock, delegate=delegate)
    return w, w._boss._RC, delegate


def run(scenario):
    errs = []
    obs = lambda ev: errs.append(ev["failure"]) if ev.get("isError") and ev.get("failure") else None
    log.addObserver(obs)
    try:
        clock = Clock(); ep = PendingEndpoint()
        w, rc, delegate = make(clock, ep)
        w.set_code("4-purple-sausages")
        clock.advance(0)
        scenario(w, rc, ep, clock)
        for _ in range(5):
            clock.advance(1)
    finally:
        log.removeObserver(obs)
    return delegate, errs


def test_close_while_first_connection_attempt_is_pending():
    def sc(w, rc, ep, clock):
        assert len(ep.ds) == 1
        w.close()
    delegate, errs = run(sc)
    print("closed:", delegate.wormhole_closed.mock_calls, "logged:", [e.type.__name__ + ": " + str(e.value)[:150] for e in errs])
    assert not errs, errs
    assert len(delegate.wormhole_closed.mock_calls) == 1


def test_connection_refused_then_close():
    def sc(w, rc, ep, clock):
        ep.ds[0].errback(Failure(ConnectionRefusedError("refused")))
        clock.advance(0)
        w.close()
    delegate, errs = run(sc)
    print("closed:", delegate.wormhole_closed.mock_calls, "logged:", [e.type.__name__ + ": " + str(e.value)[:150] for e in errs])
    assert not errs, errs
    assert len(delegate.wormhole_closed.mock_calls) == 1


class ConnectedEndpoint:
    def __init__(self):
        self.protocols = []
    def connect(self, factory):
        from twisted.test.proto_helpers import StringTransport
        p = factory.buildProtocol(None)
        p.makeConnection(StringTransport())
        self.protocols.append(p)
        return defer.succeed(p)


def test_websocket_negotiation_fails_then_close_then_tcp_closes():
    from twisted.internet.error import ConnectionDone
    errs = []
    obs = lambda ev: errs.append(ev["failure"]) if ev.get("isError") and ev.get("failure") else None
    log.addObserver(obs)
    try:
        clock = Clock(); ep = ConnectedEndpoint()
        w, rc, delegate = make(clock, ep)
        w.set_code("4-purple-sausages")
        clock.advance(0)
        assert len(ep.protocols) == 1
        # TCP is up but the WebSocket handshake fails: autobahn calls onClose without onOpen
        rc.ws_close(False, 1006, "connection was closed uncleanly")
        assert delegate.wormhole_closed.mock_calls == []      # stopService waits for the TCP connection to go away
        w.close()
        clock.advance(0)
        ep.protocols[0].connectionLost(Failure(ConnectionDone()))
        for _ in range(5):
            clock.advance(1)
    finally:
        log.removeObserver(obs)
    print("closed:", delegate.wormhole_closed.mock_calls, "logged:", [e.type.__name__ + ": " + str(e.value)[:200] for e in errs])
    assert not errs, errs
    assert len(delegate.wormhole_closed.mock_calls) == 1
