"""native demonstration (run with /venv/bin/python): a peer relay-v1 hint whose sub-hint is tor-tcp-v1, on a dilation client
without Tor: Connector._schedule_connection schedules _connect(None, ...) -> AttributeError inside the reactor (logged).
Obligation: Connector._schedule_connection.ensures.no-connect-scheduled-without-an-endpoint (C20)."""
import sys
from unittest import mock
from twisted.internet import task
from twisted.python import log
from wormhole._dilation.connector import Connector
from wormhole._dilation.roles import LEADER
from wormhole._hints import parse_hint
from wormhole._interfaces import IDilationManager
from zope.interface import alsoProvides
errs = []
log.addObserver(lambda ev: errs.append(ev) if ev.get("isError") else None)
clock = task.Clock()
m = mock.Mock(); alsoProvides(m, IDilationManager)
c = Connector(b"k"*32, None, m, clock, mock.Mock(), True, None, None, "ab"*8, LEADER)
h = parse_hint({"type": "relay-v1", "hints": [{"type": "tor-tcp-v1", "hostname": "x.onion", "port": 80}]})
print("parsed:", h)
c.got_hints([h])
clock.advance(5)
for e in errs:
    print("LOGGED ERROR:", e["failure"].type, e["failure"].value)
