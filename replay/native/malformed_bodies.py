import sys
sys.path.insert(0,'/verif/replay')
import mailbox_history as H
H.EVENTS = H.events()
names = [n for n,_,_ in H.EVENTS if n.startswith("msg.message")]
print(names)
base = ["api.set_code('4-purple-sausages')", "ws.open", "msg.welcome({})", "msg.claimed('mb1')"]
for n in names:
    w, fails, ok = H.run_history(base + [n])
    print(n, "->", sorted({(f[1]) for f in fails}), [repr(a[0])[:60] for k, a in w.W.calls if k == "closed"])
w, fails, ok = H.run_history(base + ["msg.message(side='side2', phase='pake')", "msg.message(side='sidé', phase='version')"])
print("pake then non-ascii side version ->", sorted({(f[1]) for f in fails}), [repr(a[0])[:60] for k, a in w.W.calls if k == "closed"])
