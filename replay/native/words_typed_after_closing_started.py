"""input_code(): the server (or a wrong-password peer) makes the Boss start closing while the user is still typing;
choose_words() then reaches Key.got_code -> Mailbox.add_message / Boss.got_key in closing states."""
import sys
sys.path.insert(0, '/verif/replay')
import mailbox_history as H
from spake2 import SPAKE2_Symmetric
from wormhole.util import to_bytes, bytes_to_hexstr, dict_to_bytes
H.EVENTS = H.events()
tab = {n: (l, d) for n, l, d in H.EVENTS}


def run(drop_connection):
    w = H.World(False)
    def ev(n):
        tab[n][1](w); w.clock.advance(0); w.absorb()
    for n in ["api.input_code()", "ws.open", "msg.welcome({})", "helper.choose_nameplate('4')", "msg.claimed('mb1')"]:
        ev(n)
    sp = SPAKE2_Symmetric(to_bytes("4-purple-sausages"), idSymmetric=to_bytes(w.boss._appid))
    body = dict_to_bytes({"pake_v1": bytes_to_hexstr(sp.start())})
    w.msg(type="message", side="side2", phase="pake", body=bytes_to_hexstr(body), id="m1")
    ev("msg.error('crowded')")
    if drop_connection:
        ev("ws.close")
    try:
        w.helper.choose_words("purple-sausages")
        print("drop_connection=%s: choose_words returned normally" % drop_connection)
    except Exception as e:
        print("drop_connection=%s: choose_words raised %s: %s" % (drop_connection, type(e).__name__, str(e)[:160]))


run(False)
run(True)
