"""Delegated mode (application calls close() from inside a delegate callback, docs/api.rst): the three states that are
reachable ONLY with re-entrant callbacks and that knock the first clauses out of the pairwise invariant
(inv/mailbox_delegated.triage.md "First causes").  Each is replayed on the real classes (real Boss graph behind the real
_DelegatedWormhole); all three are benign: no NoTransition / AssertionError, documented verdict.  Exit 1 if any of them shows
an internal failure or an undocumented verdict, 0 otherwise."""
import os
import sys
sys.path.insert(0, os.path.join(os.path.dirname(os.path.abspath(__file__)), ".."))
import mailbox_history as H      # noqa

H.EVENTS = H.events()
TAB = {n: (l, d) for n, l, d in H.EVENTS}
bad = 0


def play(title, policy, names, expect):
    global bad
    w, fails, legal = H.run_history_delegated(names, policy)
    v = H.native_valuation(w)
    closed = [a[0] for n, a in w.W.calls if n == "closed"]
    fl = H.failures_of(w, fails, names[-1])
    print(f"{title}\n  policy {policy}\n  history {names}\n  legal={legal} re-entered={w.W.reentered}\n"
          f"  B={v['B.state']} SK={v['SK.state']} K={v['K.state']} R={v['R.state']} T={v['T.state']} result={v['ghost.result_kind']}"
          f" callbacks={[n for n, _ in w.W.calls]} closed={closed!r}\n  internal failures: {fl}")
    ok = legal and not fl and all(v[k] == x for k, x in expect.items())
    print("  as expected (state reached, benign)" if ok else "  UNEXPECTED")
    if fl or not legal:
        bad = 1
    return w


TYPING = ["api.input_code()", "ws.open", "msg.welcome({})", "helper.choose_nameplate('4')", "msg.claimed('mb1')"]
TAIL = ["msg.released", "msg.closed"]
# 1. the key is computed after close(): stashed honest PAKE, code typed, delegate closes in wormhole_got_code; Key.got_code then
#    runs compute_key -> Boss.got_key in S3_closing (swallowed) although the verdict is LonelyError
play("first cause 1: key computed after the application closed from wormhole_got_code (key swallowed, verdict lonely)",
     {"got_code": "close"}, TYPING + ["peer.pake(honest)", "helper.choose_words('purple-sausages')"] + TAIL,
     {"B.state": "S3_closing", "SK.state": "S2_know_key", "ghost.result_kind": "lonely"})
# 2. the same with a PAKE message that carries no pake_v1: the Key machine is scared while the verdict stays LonelyError
play("first cause 2: bad stashed PAKE processed after the application closed from wormhole_got_code (SK scared, verdict lonely)",
     {"got_code": "close"}, TYPING + ["msg.message(side='side2', phase='pake', body=<no-pake_v1>)",
                                      "helper.choose_words('purple-sausages')"] + TAIL,
     {"B.state": "S3_closing", "SK.state": "S3_scared", "ghost.result_kind": "lonely"})


# 3. close() from a callback that runs while Order is still handing over queued messages: version and phase 0 arrive before the
#    PAKE message (Order queues them), the PAKE message drains the queue, the delegate closes in wormhole_got_versions
def fc3():
    global bad
    from twisted.python import log as txlog
    fails = []
    txlog.addObserver(lambda ev: fails.append(ev) if ev.get("isError") else None)
    w = H.World(False, {"got_versions": "close"})

    def ev(n):
        assert TAB[n][0](w), n
        TAB[n][1](w)
        w.clock.advance(0)
        w.absorb()
    for n in ["api.set_code('4-purple-sausages')", "ws.open", "msg.welcome({})", "msg.claimed('mb1')"]:
        ev(n)
    from spake2 import SPAKE2_Symmetric
    from wormhole.util import to_bytes, bytes_to_hexstr, dict_to_bytes, hexstr_to_bytes, bytes_to_dict
    from wormhole._key import derive_phase_key, encrypt_data
    sp = SPAKE2_Symmetric(to_bytes("4-purple-sausages"), idSymmetric=to_bytes(w.boss._appid))
    pake = bytes_to_hexstr(dict_to_bytes({"pake_v1": bytes_to_hexstr(sp.start())}))
    ours = [m for m in w.all_sent if m["type"] == "add" and m["phase"] == "pake"][0]["body"]
    key = sp.finish(hexstr_to_bytes(bytes_to_dict(hexstr_to_bytes(ours))["pake_v1"]))
    for phase, pt in (("version", b'{"app_versions": {}}'), ("0", b"hello")):
        body = encrypt_data(derive_phase_key(key, "side2", phase), pt)
        w.msg(type="message", side="side2", phase=phase, body=bytes_to_hexstr(body), id="q" + phase)
    w.msg(type="message", side="side2", phase="pake", body=pake, id="p")      # drains Order's queue: version, then phase 0
    w.absorb()
    for n in ["msg.released", "msg.closed"]:
        ev(n)
    v = H.native_valuation(w)
    closed = [a[0] for n, a in w.W.calls if n == "closed"]
    print("first cause 3: close() from wormhole_got_versions while Order is draining its queue (phase 0 still queued)\n"
          f"  re-entered={w.W.reentered} callbacks={[n for n, _ in w.W.calls]} B={v['B.state']} T={v['T.state']} closed={closed!r}\n"
          f"  logged errors: {len(fails)}  boundary requirements violated: {w.post}")
    ok = not fails and not w.post and "received" not in [n for n, _ in w.W.calls] and w.W.reentered == [("got_versions", "close")]
    print("  as expected (phase 0 handed to Receive after close(), ignored by the Boss in S3_closing; benign)" if ok else "  UNEXPECTED")
    if fails or w.post:
        bad = 1


fc3()
sys.exit(bad)
