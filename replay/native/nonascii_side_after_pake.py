import sys, json
sys.path.insert(0,'/verif/replay')
import mailbox_history as H
from spake2 import SPAKE2_Symmetric
from wormhole.util import to_bytes, bytes_to_hexstr, dict_to_bytes
H.EVENTS = H.events()
w = H.World(False)
tab = {n: (l, d) for n, l, d in H.EVENTS}
from twisted.python import log as txlog
fails = []
txlog.addObserver(lambda ev: fails.append(ev["failure"].type.__name__) if ev.get("isError") and ev.get("failure") else None)
for n in ["api.set_code('4-purple-sausages')", "ws.open", "msg.welcome({})", "msg.claimed('mb1')"]:
    tab[n][1](w); w.clock.advance(0); w.absorb()
sp = SPAKE2_Symmetric(to_bytes("4-purple-sausages"), idSymmetric=to_bytes(w.boss._appid))
body = dict_to_bytes({"pake_v1": bytes_to_hexstr(sp.start())})
try:
    w.msg(type="message", side="side2", phase="pake", body=bytes_to_hexstr(body), id="m1")
except Exception as e:
    print("pake raised", type(e).__name__, e)
w.clock.advance(0); w.absorb()
print("after pake: W calls", [k for k, a in w.W.calls])
for side in ("sidé",):
    try:
        w.msg(type="message", side=side, phase="version", body="00", id="m2")
    except Exception as e:
        print("version raised", type(e).__name__, str(e)[:100])
w.clock.advance(0); w.absorb()
print("W calls", [(k, [repr(x)[:90] for x in a]) for k, a in w.W.calls][-2:], fails)
