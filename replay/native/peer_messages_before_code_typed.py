import sys
sys.path.insert(0,'/verif/replay')
import mailbox_history as H
H.EVENTS = H.events()
def show(names):
    w, fails, ok = H.run_history(names)
    print(names, "legal" if ok else "ILLEGAL")
    for f in fails: print("    FAIL", f[0], f[1], f[2][:200].replace("\n"," "))
    if w: print("    W calls:", [(n, [repr(x)[:80] for x in a]) for n, a in w.W.calls][-4:])
show(["api.input_code()", "ws.open", "msg.welcome({})", "helper.choose_nameplate('4')", "msg.claimed('mb1')",
      "msg.message(side='side2', phase='pake')", "msg.message(side='side2', phase='version')"])
show(["api.input_code()", "ws.open", "msg.welcome({})", "helper.choose_nameplate('4')", "msg.claimed('mb1')",
      "msg.message(side='side2', phase='version')", "msg.message(side='side2', phase='pake')"])
