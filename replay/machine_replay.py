"""Native replay for contracts on Automat INPUTS (self_fields with "__state"): a real instance is built, its
fields are set from the counterexample, its collaborators are recorders, the Automat state is set to the one
the counterexample names, and the real input is called - i.e. real Automat dispatches through the real table.
The clause is then evaluated over the recorded calls, the fields and the state before/after."""
import ast
import copy
import inspect
import itertools

import specfuncs
from driver import decode, resolve, NS
from trace_replay import Recorder


def state_names(cls):
    return [n for n, a in vars(cls).items() if type(a).__name__ == "MethodicalState"]


def machine_of(cls):
    for n, a in vars(cls).items():
        if type(a).__name__ == "MethodicalMachine":
            return a
    return None


def set_state(o, cls, idx):
    from automat._core import Transitioner
    mm = machine_of(cls)
    names = state_names(cls)
    st = vars(cls)[names[idx]]
    setattr(o, mm._symbol, Transitioner(mm._automaton, st))


def current_state(o, cls):
    mm = machine_of(cls)
    tr = getattr(o, mm._symbol, None)
    st = tr._state if tr is not None else mm._automaton.initialState
    return st.method.__name__


def run(rep):
    target = rep["target"]
    mod, cls, fn = resolve(target)
    NS.update(vars(mod))
    inputs = rep.get("inputs") or {}
    if "__error__" in inputs or cls is None:
        return False, "no concrete input"
    trace = []
    selfv = inputs.get("self") or {}
    fields = selfv.get("fields") or {}
    o = object.__new__(cls)
    for k, v in fields.items():
        if k == "__state":
            continue
        if isinstance(v, dict) and "__obj__" in v:
            object.__setattr__(o, k, Recorder(v["__obj__"], trace))
        else:
            object.__setattr__(o, k, decode(v))
    idx = fields.get("__state")
    names = state_names(cls)
    if not isinstance(idx, int) or not (0 <= idx < len(names)):
        return False, f"counterexample names no valid state ({idx!r})"
    set_state(o, cls, idx)
    name = target.split(".")[-1]
    meth = getattr(o, name)
    f = fn.method if hasattr(fn, "method") else fn
    sig = inspect.signature(f)
    args = {k: decode(v) for k, v in inputs.items() if k in sig.parameters and k != "self"}
    aliases = {}
    for n, a in vars(cls).items():          # S4A = S4 style aliases
        if type(a).__name__ == "MethodicalState":
            aliases.setdefault(a.method.__name__, set()).add(n)

    def in_state_of(stname):
        return lambda obj, *ns: any(stname in aliases.get(vars(cls)[n].method.__name__, {n}) or
                                    vars(cls)[n].method.__name__ == stname for n in ns)

    old_state = current_state(o, cls)
    old = {"self": copy.copy(o)}
    for k, v in list(vars(o).items()):
        if isinstance(v, (set, dict, list)):
            object.__setattr__(old["self"], k, copy.deepcopy(v))
    old.update({k: copy.deepcopy(v) for k, v in args.items()})
    raised, result = None, None
    try:
        result = meth(**args)
    except BaseException as e:      # noqa
        raised = e
    new_state = current_state(o, cls)
    shown = {k: v for k, v in vars(old["self"]).items() if not isinstance(v, Recorder) and not k.startswith("_state")}
    msg = [f"{cls.__name__} in state {old_state}, fields {shown!r}: calling input {name}({args!r})",
           "observed: " + (f"raised {type(raised).__name__}: {raised}" if raised is not None else f"returned {result!r}")
           + f"; state now {new_state}; calls made: {[(e[2], e[3]) for e in trace if e[0] == 'bcall']!r}"]
    env = dict(specfuncs.NATIVE)
    bc = lambda nm: [e for e in trace if e[0] == "bcall" and e[2] == nm]     # noqa
    env.update({
        "bcall_names": lambda: [e[2] for e in trace if e[0] == "bcall"],
        "bcalls": lambda *ns: sum(1 for e in trace if e[0] == "bcall" and e[2] in ns),
        "bcall_arg": lambda nm, k, i: (bc(nm)[k][3][i] if len(bc(nm)) > k and len(bc(nm)[k][3]) > i else None),
        "in_state": in_state_of(new_state), "state_index": lambda obj: names.index(new_state) if new_state in names else -1,
        "ite": lambda c, a, b: a if c else b,
    })
    env.update(args)
    env["self"], env["result"] = o, result
    oldenv = dict(env)
    oldenv.update(old)
    oldenv["in_state"] = in_state_of(old_state)
    oldenv["state_index"] = lambda obj: names.index(old_state) if old_state in names else -1
    pool = {"str": {"", "x"}, "int": {0, 1}, "bytes": {b""}}

    def harvest(v, d=0):
        if d > 3 or isinstance(v, bool):
            return
        if isinstance(v, str):
            pool["str"].add(v)
        elif isinstance(v, int):
            pool["int"].add(v)
        elif isinstance(v, bytes):
            pool["bytes"].add(v)
        elif isinstance(v, dict):
            for k, x in v.items():
                harvest(k, d + 1)
                harvest(x, d + 1)
        elif isinstance(v, (list, tuple, set)):
            for x in list(v)[:50]:
                harvest(x, d + 1)
    for v in list(args.values()) + list(vars(o).values()) + list(vars(old["self"]).values()):
        harvest(v)

    def cands(f, types):
        n = len(inspect.signature(f).parameters)
        tys = list(types) + ["int"] * (n - len(types))
        return itertools.islice(itertools.product(*[sorted(pool.get(t, pool["int"]), key=repr)[:40] for t in tys[:n]]), 20000)
    for e_ in (env, oldenv):
        e_["forall"] = lambda f, *t: all(f(*c) for c in cands(f, t))
        e_["exists"] = lambda f, *t: any(f(*c) for c in cands(f, t))

    kind, clause = rep.get("kind"), rep.get("clause")
    if kind == "no-exception":
        want = rep.get("exc")
        ok = raised is not None and any(c.__name__ == want for c in type(raised).__mro__)
        return ok, "\n".join(msg + [f"required: no {want}"])
    if kind == "frame":
        fld = str(rep.get("obligation", "")).split(".frame.")[-1].split("__")[0]
        if fld and fld != "no-aliasing" and hasattr(o, fld):
            same = getattr(o, fld) == getattr(old["self"], fld)
            return (not same), "\n".join(msg + [f"required: self.{fld} unchanged -> {same!r}"])
        return False, "\n".join(msg + ["frame clause not replayable"])
    if not isinstance(clause, str):
        return False, "\n".join(msg + ["clause not replayable"])

    class Rew(ast.NodeTransformer):
        def visit_Call(self, node):
            if isinstance(node.func, ast.Name) and node.func.id == "old":
                val = eval(compile(ast.Expression(node.args[0]), "<old>", "eval"), oldenv)
                nm = f"__old{len(env)}"
                env[nm] = val
                return ast.copy_location(ast.Name(nm, ast.Load()), node)
            if isinstance(node.func, ast.Name) and node.func.id in ("implies", "imp"):
                a, b = self.visit(node.args[0]), self.visit(node.args[1])
                return ast.copy_location(ast.BoolOp(ast.Or(), [ast.UnaryOp(ast.Not(), a), b]), node)
            return self.generic_visit(node)

    try:
        if kind == "ensures":
            if raised is not None:
                return False, "\n".join(msg + ["input raised; the clause is about normal return"])
            tree = ast.fix_missing_locations(Rew().visit(ast.parse(clause.strip(), mode="eval")))
            val = eval(compile(tree, "<clause>", "eval"), env)
            return (not val), "\n".join(msg + [f"required: {clause} -> {val!r}"])
        if kind == "ensures-raise":
            if raised is None:
                return False, "\n".join(msg)
            tree = ast.fix_missing_locations(Rew().visit(ast.parse(clause.strip(), mode="eval")))
            val = eval(compile(tree, "<clause>", "eval"), env)
            return (not val), "\n".join(msg + [f"required after the exception: {clause} -> {val!r}"])
        if kind == "raises-cond":
            if raised is None:
                return False, "\n".join(msg)
            val = eval(clause.strip(), oldenv)
            return (not val), "\n".join(msg + [f"raised although: {clause} -> {val!r}"])
        if kind == "raises-iff":
            val = eval(clause.strip(), oldenv)
            return bool(val and raised is None), "\n".join(msg + [f"must raise when: {clause} -> {val!r}; raised={raised is not None}"])
    except Exception as e:        # noqa
        return False, "\n".join(msg + [f"clause not evaluable natively: {e!r}"])
    return False, "\n".join(msg + [f"no native replay for kind {kind!r}"])
