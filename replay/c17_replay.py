"""Native replays for C17 against the real Dilator / Manager / Connector classes."""
from unittest import mock


def _get(d, *path, default=None):
    for p in path:
        if not isinstance(d, dict):
            return default
        if p in d:
            d = d[p]
        elif "fields" in d and p in d["fields"]:
            d = d["fields"][p]
        else:
            return default
    return d


def _dilator():
    from zope.interface import alsoProvides
    from twisted.internet.task import Clock, Cooperator
    from wormhole._interfaces import ISend, ITerminator
    from wormhole.eventual import EventualQueue
    from wormhole._dilation.manager import Dilator, DILATION_VERSIONS
    clock = Clock()
    eq = EventualQueue(clock)
    coop = Cooperator(terminationPredicateFactory=lambda: (lambda: True), scheduler=eq.eventually)
    send, term = mock.Mock(), mock.Mock()
    alsoProvides(send, ISend)
    alsoProvides(term, ITerminator)
    d = Dilator(clock, eq, coop, DILATION_VERSIONS)
    d.wire(send, term)
    return d, clock, eq


def dilate_forwards_versions(rep):
    """Dilator.got_wormhole_versions(v) before Dilator.dilate(): the Manager must be handed v"""
    inp = rep.get("inputs") or {}
    v = _get(inp, "self", "_pending_wormhole_versions")
    name = rep.get("obligation", "")
    if "versions-that-arrived-first-reach-the-manager" not in name:
        return False, "no native check for this clause"
    if not isinstance(v, dict):
        return False, f"counterexample versions are not a dict: {v!r}"
    msg = [f"peer versions message: {v!r}"]
    # 1. with the Manager class replaced by a recorder: was got_wormhole_versions() called on it?
    d, clock, eq = _dilator()
    d.got_wormhole_versions(v)
    with mock.patch("wormhole._dilation.manager.Manager") as M:
        d.dilate()
    calls = M.return_value.got_wormhole_versions.call_args_list
    msg.append(f"Dilator.got_wormhole_versions(v); Dilator.dilate()  ->  Manager.got_wormhole_versions calls: {calls!r}")
    forwarded = len(calls) == 1 and calls[0] == mock.call(v)
    # 2. the same with the real Manager: does a subchannel connect() ever get an answer?
    from twisted.internet.protocol import Factory
    from wormhole.observer import NoResult
    d2, clock2, eq2 = _dilator()
    d2.got_wormhole_versions(v)
    api = d2.dilate()
    res = []
    api.connector_for("proto").connect(Factory()).addBoth(res.append)
    eq2.flush_sync()
    clock2.advance(3600)
    eq2.flush_sync()
    msg.append(f"real Manager: main channel result is {'unset' if d2._manager._main_channel._result is NoResult else 'set'}, "
               f"connect() Deferred after an hour: {res!r} (empty = still waiting)")
    return (not forwarded), "\n".join(msg)


def inbound_attempt_tracked(rep):
    """an inbound connection accepted by the Connector's listener (InboundConnectionFactory.buildProtocol) and
    still negotiating when the Connector is stopped: is it tracked, is it disconnected by stop()?"""
    from zope.interface import alsoProvides
    from twisted.internet.task import Clock
    from twisted.internet.address import IPv4Address
    from twisted.internet.testing import StringTransport
    from wormhole._interfaces import IDilationManager
    from wormhole.eventual import EventualQueue
    from wormhole._dilation.connector import Connector, InboundConnectionFactory
    from wormhole._dilation.roles import LEADER, FOLLOWER
    name = rep.get("obligation", "")
    if "inbound-attempt-is-tracked" not in name:
        return False, "no native check for this clause"
    out = []
    bad_any = False
    for role in (LEADER, FOLLOWER):
        clock = Clock()
        eq = EventualQueue(clock)
        mgr = mock.Mock()
        alsoProvides(mgr, IDilationManager)
        c = Connector(b"k" * 32, None, mgr, clock, eq, True, None, None, "abcd" * 4, role)
        f = InboundConnectionFactory(c)
        # the Noise library is irrelevant here (and not installed in this environment)
        with mock.patch("wormhole._dilation.connector.build_noise", return_value=mock.Mock()):
            p = f.buildProtocol(IPv4Address("TCP", "10.0.0.7", 4444))
        t = StringTransport()
        p.makeConnection(t)
        tracked = p in c._pending_connections
        c.stop()
        eq.flush_sync()
        out.append(f"{role}: protocol built for an inbound connection tracked in _pending_connections: {tracked}; "
                   f"after Connector.stop(): transport.loseConnection() requested: {t.disconnecting}")
        bad_any = bad_any or (not tracked and not t.disconnecting)
    return bad_any, "\n".join(out)
