"""Native replays for C16: the real Manager + TrafficTimer classes driven with twisted's task.Clock
(a real IReactorTime whose DelayedCalls are the real twisted.internet.base.DelayedCall)."""
from unittest import mock


def _get(d, *path, default=None):
    for p in path:
        if not isinstance(d, dict):
            return default
        if p in d:
            d = d[p]
        elif "fields" in d and p in d["fields"]:
            d = d["fields"][p]
        else:
            return default
    return d


def make_manager(interval, now, leader=True):
    from zope.interface import alsoProvides
    from twisted.internet.task import Clock, Cooperator
    from wormhole._interfaces import ISend
    from wormhole.eventual import EventualQueue
    from wormhole._dilation.manager import Manager, DILATION_VERSIONS, TrafficTimer
    from wormhole._dilation.roles import LEADER, FOLLOWER
    clock = Clock()
    if now > 0:
        clock.advance(now)
    send = mock.Mock()
    alsoProvides(send, ISend)
    eq = EventualQueue(clock)
    coop = Cooperator(terminationPredicateFactory=lambda: (lambda: True), scheduler=eq.eventually)
    with mock.patch("wormhole._dilation.manager.Inbound", mock.Mock()), \
            mock.patch("wormhole._dilation.manager.Outbound", mock.Mock()):
        m = Manager(send, "abcd" * 4, None, clock, eq, coop, DILATION_VERSIONS, float(interval), {})
    m._my_role = LEADER if leader else FOLLOWER
    # exactly what connector_connection_made does for the Leader's first connection
    m._traffic = TrafficTimer(m._signal_reconnect, m._send_ping_reset_timer)
    return m, clock


def send_ping_reset_timer(rep):
    """obligations of Manager._send_ping_reset_timer: pre-state from the counterexample (clock, interval, an
    already pending interval timer with its deadline), one real call, then the clause on the real DelayedCall"""
    inp = rep.get("inputs") or {}
    interval = float(_get(inp, "self", "_ping_interval", default=30.0))
    now = float(_get(inp, "self", "_reactor", "now", default=0.0))
    tm = _get(inp, "self", "_timer")
    name = rep.get("obligation", "")
    m, clock = make_manager(interval, max(now, 0.0))
    base = clock.seconds()
    msg = [f"ping_interval={interval} now={base}"]
    if tm is not None:
        dl = float(_get(tm, "deadline", default=now))
        # the timer as the Manager itself would have created it earlier: pending, due at `dl`
        def timer_expired():
            m._timer = None
            m._traffic.interval_elapsed()
        m._timer = clock.callLater(max(dl - now, 0.0), timer_expired)
        msg.append(f"a pending interval timer is due at {m._timer.getTime()} (in {m._timer.getTime() - base}s)")
    else:
        msg.append("no interval timer pending")
    m._send_ping_reset_timer()
    t = m._timer
    pend = [c for c in clock.getDelayedCalls() if c.active()]
    msg.append(f"after _send_ping_reset_timer(): pending calls={len(pend)}, timer due at "
               f"{t.getTime() if t is not None else None}, now + ping_interval = {base + interval}")
    if "deadline-within-one-interval" in name:
        bad = t is None or t.getTime() > base + interval
        msg.append("required: deadline <= now + ping_interval")
    elif "not-before-one-interval" in name:
        bad = t is None or t.getTime() < base + interval
        msg.append("required: deadline >= now + ping_interval")
    elif "exactly-one-timer-pending" in name:
        bad = t is None or not t.active() or len(pend) != 1
        msg.append("required: exactly one pending interval timer")
    else:
        return False, "\n".join(msg + ["no native check for this clause"])
    return bool(bad), "\n".join(msg)


def two_answered_pings_then_silence(rep):
    """the lemma's sequence against the real classes: connection made (Leader), two pongs answered
    immediately, then silence; the Clock is advanced to each timer deadline"""
    inp = rep.get("inputs") or {}
    interval = float(_get(inp, "mgr", "_ping_interval", default=30.0))
    now = float(_get(inp, "mgr", "_reactor", "now", default=0.0))
    name = rep.get("obligation", "")
    m, clock = make_manager(interval, max(now, 0.0))
    conn = mock.Mock()
    m._connection = conn
    m._traffic.got_connection()
    m._traffic.traffic_seen()
    m._traffic.traffic_seen()
    t_last = clock.seconds()
    msg = [f"ping_interval={interval}; connection made and two pings answered at t={t_last}; "
           f"interval timer now due at t={m._timer.getTime()}"]
    fired = 0
    while fired < 2 and m._timer is not None:
        clock.advance(m._timer.getTime() - clock.seconds())
        fired += 1
        msg.append(f"expiry #{fired} at t={clock.seconds()}: disconnect() calls so far={conn.disconnect.call_count}")
    dropped_at = clock.seconds()
    msg.append(f"silent peer dropped at t={dropped_at}; last answered ping at t={t_last}; "
               f"3 * ping_interval = {3 * interval}")
    if "under-three-ping-intervals" in name:
        bad = not (conn.disconnect.call_count == 1 and dropped_at < t_last + 3 * interval)
        msg.append("required: dropped before last_pong + 3 * ping_interval")
    elif "dropped-on-second-expiry" in name:
        bad = conn.disconnect.call_count != 1
        msg.append("required: disconnect() exactly once after the second expiry")
    else:
        return False, "\n".join(msg + ["no native check for this clause"])
    return bool(bad), "\n".join(msg)
