"""Native replay for the mailbox cluster: searches, on the REAL classes (real Boss graph, real
automat), for a legal event history that shows the behaviour a failed obligation forbids, and
replays it.  Runs under /venv/bin/python.  The search is breadth-first over a small concrete
event alphabet that respects the same environment contract as the verifier (E1-E4); it is
only ever used to turn a refuted obligation into a concrete witness."""
import json
import sys
import time
import traceback
from collections import deque

from twisted.internet import defer, task
from twisted.python import log as txlog, failure

MAXDEPTH = 8
BUDGET_S = 60


class Recorder:
    """the application: records W.* calls"""

    def __init__(self):
        self.calls = []

    def __getattr__(self, name):
        def f(*a, **k):
            self.calls.append((name, a))
        return f


class ReentrantDelegate:
    """delegated-mode application (docs/api.rst "Delegated mode"): records every wormhole_* callback under the name of the
    W.* call that produced it and, per `policy` {W-method: 'close' | 'send'}, calls back into the real _DelegatedWormhole
    (w.close() / w.send_message()) synchronously from inside the callback"""
    NAMES = {"wormhole_got_welcome": "got_welcome", "wormhole_got_code": "got_code", "wormhole_got_unverified_key": "got_key",
             "wormhole_got_verifier": "got_verifier", "wormhole_got_versions": "got_versions",
             "wormhole_got_message": "received", "wormhole_closed": "closed"}

    def __init__(self, world, policy):
        self.world = world
        self.policy = dict(policy)
        self.calls = []
        self.reentered = []

    def __getattr__(self, name):
        if name not in self.NAMES:
            raise AttributeError(name)
        meth = self.NAMES[name]

        def f(*a):
            w = self.world
            self.calls.append((meth, a))
            w.on_w_call(meth, a)
            act = self.policy.get(meth)
            if meth == "closed" or act is None or w.api_closed:
                return
            self.reentered.append((meth, act))
            if act == "send":
                w.dw.send_message(b"re")
            elif act == "close":
                w.api_closed = True
                w.dw.close()
        return f


class FakeWS:
    def __init__(self, world=None):
        self.sent = []
        self.world = world

    def sendMessage(self, payload, is_binary):
        m = json.loads(payload.decode("utf-8"))
        self.sent.append(m)
        if self.world is not None:
            self.world.on_sent(m)


class StubService:
    """ClientService stand-in: never connects by itself; stopService fires at once when idle"""

    def __init__(self, *a, **k):
        self.running = False
        self.stop_d = None
        self.world = None

    def startService(self):
        self.running = True

    def whenConnected(self, failAfterFailures=None):
        return defer.Deferred()

    def stopService(self):
        self.running = False
        if self.world is not None and self.world.connected:
            self.stop_d = defer.Deferred()
            return self.stop_d
        if self.world is not None and self.world.defer_stop:
            self.stop_d = defer.Deferred()
            return self.stop_d
        return defer.succeed(None)


class World:
    def __init__(self, defer_stop=False, policy=None):
        import wormhole._rendezvous as rz
        from wormhole._boss import Boss
        from wormhole.eventual import EventualQueue
        from wormhole.journal import ImmediateJournal
        from wormhole.timing import DebugTiming
        self.defer_stop = defer_stop
        self.errors = []          # (kind, detail) observed internal failures
        self.policy = policy
        self.post = []            # (name, detail): violated event-order / close-down requirements (delegated runs)
        self.claimed_maybe = self.opened_maybe = False
        self.all_sent = []
        if policy is None:
            self.W = self.dw = Recorder()
        else:
            from wormhole.wormhole import _DelegatedWormhole
            self.W = ReentrantDelegate(self, policy)
            self.dw = _DelegatedWormhole(self.W)
        self.clock = task.Clock()
        orig = rz.internet.ClientService
        rz.internet.ClientService = StubService
        try:
            self.boss = Boss(self.dw, "side1", "ws://127.0.0.1:1/v1", "appid", {}, ("python", "v"), self.clock,
                             EventualQueue(self.clock), None, ImmediateJournal(), None, DebugTiming())
        finally:
            rz.internet.ClientService = orig
        if policy is not None:
            self.dw._set_boss(self.boss)
        self.t_moods = []
        if policy is not None:
            t_close = self.boss._T.close

            def spy_close(mood):         # what the Boss tells the Terminator (instance attribute: the class is untouched)
                self.t_moods.append(mood)
                return t_close(mood)
            self.boss._T.close = spy_close
        self.rc = self.boss._RC
        self.rc._connector.world = self
        self.boss.start()
        self.helper = None
        self.connected = False
        self.ever = False
        self.ws = None
        self.api_closed = False
        self.stopped_done = False
        self.init_fail_done = False
        self.service_stopped = False
        self.seen = 0
        self.owed = dict(claim=False, release=False, close=False, allocate=False, list=False)
        self.welcome_rx = False
        self.open_sent = False
        self.bound = False

    # ---- the requirements of C08 / C18 that the verifier states at the W / WS boundary, evaluated natively (delegated runs)
    def on_sent(self, m):
        t = m["type"]
        self.all_sent.append(m)
        if t == "claim":
            self.claimed_maybe = True
        if t == "open":
            self.opened_maybe = True
        if t == "close" and self.t_moods and m.get("mood") != self.t_moods[-1]:
            self.post.append(("post:C08:mailbox-closed-with-boss-mood",
                              f"server 'close' carries mood {m.get('mood')!r}, the Boss gave the Terminator {self.t_moods[-1]!r}"))

    def on_w_call(self, meth, a):
        seen = [n for n, _ in self.W.calls[:-1]]
        if "closed" in seen:
            self.post.append((f"post:C08:nothing-after-closed[{meth}]", f"W.{meth} after W.closed"))
        if meth == "got_versions" and ("got_verifier" not in seen or "got_versions" in seen):
            self.post.append(("post:C18:versions-after-verifier-once", f"W.got_versions after {seen}"))
        if meth == "closed":
            r = a[0]
            normal = r == "happy" or type(r).__name__ in ("LonelyError", "WrongPasswordError", "ServerError", "WelcomeError")
            if normal and (self.claimed_maybe or self.opened_maybe or not self.rc._stopping):
                self.post.append(("post:C08:resources-freed-before-closed",
                                  f"closed({r!r}) with claimed_maybe={self.claimed_maybe} opened_maybe={self.opened_maybe} "
                                  f"rc_stopping={self.rc._stopping}"))

    # ---- bookkeeping of what the client sent on this connection
    def absorb(self):
        if self.ws is None:
            return
        for m in self.ws.sent[self.seen:]:
            t = m["type"]
            if t == "bind":
                self.bound = True
            if t in self.owed:
                self.owed[t] = True
            if t == "open":
                self.open_sent = True
        self.seen = len(self.ws.sent)

    def fingerprint(self):
        b = self.boss
        objs = [b, b._N, b._M, b._S, b._O, b._K, b._K._SK, b._R, b._L, b._A, b._I, b._C, b._T]
        st = []
        for o in objs:
            m = type(o).m
            tr = getattr(o, m._symbol, None)
            st.append(tr._state.method.__name__ if tr is not None else "init")
        return (tuple(st), self.connected, self.ever, self.api_closed, self.stopped_done, self.init_fail_done,
                self.service_stopped, tuple(sorted(self.owed.items())), self.welcome_rx, self.open_sent,
                self.helper is not None, self.rc._stopping, b._did_start_code,
                self.rc._connector.stop_d is not None and not self.rc._connector.stop_d.called,
                bool(b._M._pending_outbound), len(self.W.calls) > 0 and self.W.calls[-1][0] == "closed")

    # ---- events: (name, legal?(world), do(world))
    def msg(self, **m):
        self.rc.ws_message(json.dumps(m).encode("utf-8"))


def hexjson(d):
    import binascii
    return binascii.hexlify(json.dumps(d).encode()).decode()


def events():
    E = []

    def ev(name, legal, do):
        E.append((name, legal, do))
    napi = lambda w: not w.api_closed          # noqa
    ev("api.set_code('4-purple-sausages')", napi, lambda w: w.boss.set_code("4-purple-sausages"))
    ev("api.allocate_code(2)", napi, lambda w: w.boss.allocate_code(2))

    def input_code(w):
        w.helper = w.boss.input_code()
    ev("api.input_code()", napi, input_code)
    ev("api.send(b'x')", napi, lambda w: w.boss.send(b"x"))

    def close(w):
        w.api_closed = True
        w.boss.close()
    ev("api.close()", lambda w: True, close)
    hp = lambda w: napi(w) and w.helper is not None      # noqa
    ev("helper.refresh_nameplates()", hp, lambda w: w.helper.refresh_nameplates())
    ev("helper.get_nameplate_completions('')", hp, lambda w: w.helper.get_nameplate_completions(""))
    ev("helper.choose_nameplate('4')", hp, lambda w: w.helper.choose_nameplate("4"))
    ev("helper.get_word_completions('')", hp, lambda w: w.helper.get_word_completions(""))
    ev("helper.choose_words('purple-sausages')", hp, lambda w: w.helper.choose_words("purple-sausages"))

    def ws_open(w):
        w.ws = FakeWS(w)
        w.seen = 0
        w.connected = True
        w.ever = True
        w.rc.ws_open(w.ws)
    ev("ws.open", lambda w: not w.connected and not w.service_stopped and not w.rc._stopping and not w.init_fail_done, ws_open)

    def ws_close(w):
        w.connected = False
        w.owed = dict.fromkeys(w.owed, False)
        w.welcome_rx = w.open_sent = w.bound = False
        w.rc.ws_close(True, 1000, "bye")
    ev("ws.close", lambda w: w.connected, ws_close)

    def ws_close_never(w):
        w.service_stopped = True
        w.init_fail_done = True
        w.rc.ws_close(False, 1006, "abnormal")
    ev("ws.close_never_opened", lambda w: not w.connected and not w.ever and not w.service_stopped and not w.init_fail_done,
       ws_close_never)

    def ws_close_failed_reconnect(w):
        # a reconnection attempt whose WebSocket negotiation fails: onClose() without onOpen(), the service keeps trying
        w.rc.ws_close(False, 1006, "abnormal")
    ev("ws.close_failed_reconnect", lambda w: w.ever and not w.connected and not w.service_stopped and not w.init_fail_done,
       ws_close_failed_reconnect)

    def svc_stopped(w):
        w.stopped_done = True
        w.service_stopped = True
        d = w.rc._connector.stop_d
        w.rc._connector.stop_d = None
        d.callback(None)
    ev("service.stopped", lambda w: (not w.connected and w.rc._connector.stop_d is not None
                                     and not w.rc._connector.stop_d.called), svc_stopped)

    def init_fail(w):
        w.init_fail_done = True
        w.service_stopped = True
        w.rc._initial_connection_failed(failure.Failure(ConnectionRefusedError("refused")))
    ev("service.initial_connection_failed", lambda w: not w.connected and not w.ever and not w.init_fail_done, init_fail)
    conn = lambda w: w.connected      # noqa
    cw = lambda w: w.connected and w.welcome_rx     # noqa

    def welcome(extra):
        def f(w):
            w.welcome_rx = True
            w.msg(type="welcome", welcome=extra, server_tx=1.0)
        return f
    ev("msg.welcome({})", lambda w: conn(w) and not w.welcome_rx, welcome({}))
    ev("msg.welcome({'error': 'go away'})", lambda w: conn(w) and not w.welcome_rx, welcome({"error": "go away"}))

    def reply(kind, **fields):
        def f(w):
            w.owed[kind_req[kind]] = False
            if kind == "released":
                w.claimed_maybe = False
            if kind == "closed":
                w.opened_maybe = False
            w.msg(type=kind, **fields)
        return f
    kind_req = {"claimed": "claim", "released": "release", "closed": "close", "allocated": "allocate", "nameplates": "list"}
    ev("msg.claimed('mb1')", lambda w: cw(w) and w.owed["claim"], reply("claimed", mailbox="mb1"))
    ev("msg.released", lambda w: cw(w) and w.owed["release"] and not w.owed["claim"], reply("released"))
    ev("msg.closed", lambda w: cw(w) and w.owed["close"], reply("closed"))
    ev("msg.allocated('4')", lambda w: cw(w) and w.owed["allocate"], reply("allocated", nameplate="4"))
    ev("msg.nameplates([{'id':'4'}])", lambda w: cw(w) and w.owed["list"], reply("nameplates", nameplates=[{"id": "4"}]))
    om = lambda w: cw(w) and w.open_sent      # noqa
    for side in ("side2", "side1"):
        for phase, body in (("pake", hexjson({"pake_v1": "00"})), ("version", "00"), ("0", "00")):
            ev(f"msg.message(side={side!r}, phase={phase!r})", om,
               (lambda s, p, b: lambda w: w.msg(type="message", side=s, phase=p, body=b, id="m"))(side, phase, body))
    import binascii as _b
    bad_bodies = [("pake", "not-hex", "zz"),
                  ("pake", "hex-of-non-json", _b.hexlify(b"not json").decode()),
                  ("pake", "pake_v1-not-hex", hexjson({"pake_v1": "zz"})),
                  ("pake", "no-pake_v1", hexjson({"other": 1}))]
    for phase, label, body in bad_bodies:
        ev(f"msg.message(side='side2', phase={phase!r}, body=<{label}>)", om,
           (lambda p, b: lambda w: w.msg(type="message", side="side2", phase=p, body=b, id="m"))(phase, body))
    ev("msg.message(side='sid\u00e9', phase='version')", om,
       lambda w: w.msg(type="message", side="sid\u00e9", phase="version", body="00", id="m"))
    # ---- an honest peer (real SPAKE2 exchange, real encryption): needed to reach the key / verifier / versions / message
    # callbacks of a delegated application
    def peer_code(w):
        for n, a in w.W.calls:
            if n == "got_code":
                return a[0]
        return "4-purple-sausages"

    def peer_pake(w):
        from spake2 import SPAKE2_Symmetric
        from wormhole.util import to_bytes, bytes_to_hexstr, dict_to_bytes
        w.peer_sp = SPAKE2_Symmetric(to_bytes(peer_code(w)), idSymmetric=to_bytes(w.boss._appid))
        body = dict_to_bytes({"pake_v1": bytes_to_hexstr(w.peer_sp.start())})
        w.peer_pake_sent = True
        w.msg(type="message", side="side2", phase="pake", body=bytes_to_hexstr(body), id="p1")
    ev("peer.pake(honest)", lambda w: om(w) and not getattr(w, "peer_pake_sent", False), peer_pake)

    def our_pake(w):
        for m in w.all_sent:
            if m["type"] == "add" and m["phase"] == "pake":
                return m["body"]
        return None

    def peer_encrypted(phase, plaintext):
        def f(w):
            from wormhole.util import hexstr_to_bytes, bytes_to_hexstr, bytes_to_dict
            from wormhole._key import derive_phase_key, encrypt_data
            if getattr(w, "peer_key", None) is None:
                w.peer_key = w.peer_sp.finish(hexstr_to_bytes(bytes_to_dict(hexstr_to_bytes(our_pake(w)))["pake_v1"]))
            body = encrypt_data(derive_phase_key(w.peer_key, "side2", phase), plaintext)
            w.msg(type="message", side="side2", phase=phase, body=bytes_to_hexstr(body), id="p-" + phase)
        return f
    pk = lambda w: om(w) and getattr(w, "peer_pake_sent", False) and our_pake(w) is not None     # noqa
    ev("peer.version(honest)", pk, peer_encrypted("version", b'{"app_versions": {}}'))
    ev("peer.message0(honest)", pk, peer_encrypted("0", b"hello"))
    ev("msg.error('crowded')", lambda w: cw(w) and w.bound, lambda w: w.msg(type="error", error="crowded", orig={}))
    ev("msg.ack", cw, lambda w: w.msg(type="ack", id="a"))
    return E


EVENTS = None


def run_history(names, defer_stop=False):
    """replays a history; returns (world, failures) where failures lists internal failures observed"""
    global EVENTS
    if EVENTS is None:
        EVENTS = events()
    table = {n: (l, d) for n, l, d in EVENTS}
    fails = []

    def observer(ev):
        if ev.get("isError"):
            f = ev.get("failure")
            if f is not None:
                fails.append(("logged", f.type.__name__, str(f.value)[:300], tb_tail(f), [c.__name__ for c in f.type.__mro__]))
    txlog.addObserver(observer)
    w = None
    try:
        w = World(defer_stop)
        for n in names:
            legal, do = table[n]
            if not legal(w):
                return w, fails, False
            try:
                do(w)
            except Exception as e:      # noqa
                fails.append(("raised", type(e).__name__, str(e)[:300], "".join(traceback.format_tb(e.__traceback__)[-3:]),
                              [c.__name__ for c in type(e).__mro__]))
            w.clock.advance(0)
            w.absorb()
        return w, fails, True
    finally:
        txlog.removeObserver(observer)


def tb_tail(f):
    try:
        return "".join(traceback.format_tb(f.getTracebackObject())[-3:])
    except Exception:
        return ""


DOCUMENTED = ("LonelyError", "WrongPasswordError", "ServerError", "WelcomeError", "ServerConnectionError",
              "KeyFormatError", "OnlyOneCodeError", "WormholeClosed", "TransferError")
API_ERRORS = {"api.set_code": ("KeyFormatError", "OnlyOneCodeError"), "api.allocate_code": ("OnlyOneCodeError",),
              "api.input_code": ("OnlyOneCodeError",),
              "helper.": ("AlreadyChoseNameplateError", "MustChooseNameplateFirstError", "AlreadyChoseWordsError",
                          "KeyFormatError")}


def matches(target, w, fails, last_event):
    """does the observed behaviour show the failure the obligation forbids?"""
    kind = target.get("kind")
    import re as _re
    for how, cls, msg, tb, mro in fails:
        allowed = ()
        for pre, al in API_ERRORS.items():
            if last_event.startswith(pre):
                allowed = al
        if how == "raised" and cls in allowed:
            continue
        if kind == "nodom" and cls == "NoTransition":
            if _re.search(r"\.%s at " % _re.escape(target["input"]), msg) and \
                    _re.search(r"\.%s at " % _re.escape(target["state"]), msg) and \
                    (not target.get("machine") or (target["machine"] + ".") in msg):
                return f"{cls}: {msg}"
        if kind == "assert" and cls == "AssertionError":
            if target.get("function", "").split(".")[-1] in tb:
                return f"AssertionError in {target.get('function')}\n{tb}"
        if kind == "exc" and (cls == target.get("exc") or target.get("exc") in mro):
            return f"{cls}: {msg}\n{tb}"
        if kind == "any-internal":
            return f"{cls}: {msg}\n{tb}"
    if kind == "verdict" and w is not None:
        for name, a in w.W.calls:
            if name == "closed":
                r = a[0]
                if not (r == "happy" or type(r).__name__ in DOCUMENTED):
                    return f"closed({r!r})"
    return None


def search(rep):
    """entry point used by replay/driver.py: rep['extra'] = {target: {...}, cti: {...}}"""
    global EVENTS
    EVENTS = events()
    ex = rep.get("extra") or {}
    target = ex.get("target") or {}
    hist = ex.get("history")
    if hist:
        w, fails, legal = run_history(hist, ex.get("defer_stop", False))
        m = matches(target, w, fails, hist[-1]) if legal else None
        return (m is not None), f"history: {hist}\nobserved: {m or fails}"
    t0 = time.time()
    names = [n for n, l, d in EVENTS]
    for defer_stop in (False, True):
        seen = set()
        q = deque([[]])
        while q and time.time() - t0 < BUDGET_S:
            h = q.popleft()
            if len(h) >= MAXDEPTH:
                continue
            for n in names:
                h2 = h + [n]
                w, fails, legal = run_history(h2, defer_stop)
                if not legal:
                    continue
                m = matches(target, w, fails, n)
                if m is not None:
                    ex["history"] = h2
                    ex["defer_stop"] = defer_stop
                    return True, ("history (every event is legal under the environment contract):\n  " + "\n  ".join(h2) +
                                  f"\nobserved on the real classes: {m}\nrequired: {rep.get('clause')}")
                if fails:
                    continue      # a different failure: do not search beyond it
                fp = w.fingerprint()
                if fp in seen:
                    continue
                seen.add(fp)
                q.append(h2)
    return False, f"no history of length <= {MAXDEPTH} found within {BUDGET_S}s for {target}"


if __name__ == "__main__":
    rep = {"extra": {"target": json.loads(sys.argv[1])}, "clause": ""}
    ok, msg = search(rep)
    print(msg)
    print("REPRODUCED" if ok else "NOT-REPRODUCED")


# ---------------------------------------------------------------------------------------------------------------------
# delegated mode: the same search with a delegate that re-enters close() / send_message() from inside its callbacks

HOSTILE = ("body=<", "sid\u00e9", "msg.ack", "completions", "msg.message(side='side2', phase='pake')")


def signature(how, cls, msg, tb):
    import re as _re
    if cls == "NoTransition":
        mo = _re.search(r"bound method (\w+)\.(\w+) of .*bound method \w+\.(\w+) of", msg.replace("\n", " "))
        if mo:
            return f"nodom:{mo.group(1)}.{mo.group(3)}@{mo.group(2)}"
        mo = _re.findall(r"(\w+)\.(\w+) at ", msg)
        return "nodom:" + "/".join(".".join(x) for x in mo)
    if cls == "AssertionError":
        mo = _re.findall(r'File "[^"]*/(\w+\.py)", line \d+, in (\w+)', tb)
        return "assert@" + (":".join(mo[-1]) if mo else "?")
    return f"exc:{cls}"


def failures_of(w, fails, last_event):
    out = []
    for how, cls, msg, tb, mro in fails:
        allowed = ()
        for pre, al in API_ERRORS.items():
            if last_event.startswith(pre):
                allowed = al
        if how == "raised" and cls in allowed:
            continue
        out.append((signature(how, cls, msg, tb), f"{how} {cls}: {msg[:200]}\n{tb}"))
    for name, detail in (w.post if w is not None else []):
        out.append((name, detail))
    if w is not None:
        for name, a in w.W.calls:
            if name == "closed" and not (a[0] == "happy" or type(a[0]).__name__ in DOCUMENTED):
                out.append(("post:C14:verdict-is-documented", f"closed({a[0]!r})"))
    return out


def run_history_delegated(names, policy, defer_stop=False):
    global EVENTS
    if EVENTS is None:
        EVENTS = events()
    table = {n: (l, d) for n, l, d in EVENTS}
    fails = []

    def observer(ev):
        if ev.get("isError"):
            f = ev.get("failure")
            if f is not None:
                fails.append(("logged", f.type.__name__, str(f.value)[:600], tb_tail(f), [c.__name__ for c in f.type.__mro__]))
    txlog.addObserver(observer)
    w = None
    try:
        w = World(defer_stop, policy)
        for n in names:
            legal, do = table[n]
            if not legal(w):
                return w, fails, False
            try:
                do(w)
            except Exception as e:      # noqa
                allowed = [al for pre, al in API_ERRORS.items() if n.startswith(pre)]
                if not (allowed and type(e).__name__ in allowed[0]):      # a documented usage error of this very call
                    fails.append(("raised", type(e).__name__, str(e)[:600], "".join(traceback.format_tb(e.__traceback__)[-3:]),
                                  [c.__name__ for c in type(e).__mro__]))
            w.clock.advance(0)
            w.absorb()
        return w, fails, True
    finally:
        txlog.removeObserver(observer)


def search_delegated(policy, maxdepth=9, budget_s=120, defer_stops=(False, True), skip=HOSTILE, prefix=(), clauses=(),
                     stats=None):
    """breadth-first over legal histories with the given re-entry policy; returns {signature: (history, defer_stop, detail)}
    with the shortest history found for every distinct failure (the search does not continue beyond a failure)"""
    global EVENTS
    EVENTS = events()
    names = [n for n, l, d in EVENTS if not any(s in n for s in skip)]
    found = {}
    t0 = time.time()
    for defer_stop in defer_stops:
        seen = set()
        q = deque([list(prefix)])
        while q and time.time() - t0 < budget_s * (1 + defer_stops.index(defer_stop)) / len(defer_stops):
            h = q.popleft()
            if len(h) >= maxdepth + len(prefix):
                continue
            for n in names:
                h2 = h + [n]
                w, fails, legal = run_history_delegated(h2, policy, defer_stop)
                if not legal:
                    continue
                fl = failures_of(w, fails, n)
                if fl:
                    for sig, detail in fl:
                        if sig not in found or len(found[sig][0]) > len(h2):
                            found[sig] = (h2, defer_stop, detail, list(w.W.reentered))
                    continue
                if clauses:
                    # clauses [[literal, value], [literal, value]] (= not both) tested on this natively reached state
                    val = native_valuation(w)
                    if stats is not None:
                        stats["states"] = stats.get("states", 0) + 1
                    for c in clauses:
                        if all(l in val and val[l] == x for l, x in c):
                            sig = "clause-violated:" + " & ".join(f"{l}=={x}" for l, x in c)
                            if sig not in found or len(found[sig][0]) > len(h2):
                                found[sig] = (h2, defer_stop, "reached natively", list(w.W.reentered))
                fp = w.fingerprint() + (getattr(w, "peer_pake_sent", False), getattr(w, "peer_key", None) is not None,
                                        tuple(sorted({c for c, _ in w.W.calls})), w.claimed_maybe, w.opened_maybe,
                                        len(w.W.reentered))
                if fp in seen:
                    continue
                seen.add(fp)
                q.append(h2)
    return found


def native_valuation(w):
    """the literals of the cluster's invariant template that can be read off the real objects / this harness's bookkeeping
    (used to test, on natively reached states, clauses that would exclude a counterexample-to-induction)"""
    b = w.boss
    v = {}
    objs = dict(B=b, N=b._N, M=b._M, S=b._S, O=b._O, K=b._K, SK=b._K._SK, R=b._R, L=b._L, A=b._A, I=b._I, C=b._C, T=b._T)
    for nm, o in objs.items():
        tr = getattr(o, type(o).m._symbol, None)
        v[nm + ".state"] = (tr._state if tr is not None else type(o).m._automaton.initialState).method.__name__

    def fld(name, obj, attr):
        x = getattr(obj, attr, None)
        v[name + ".isnone"] = x is None
        v[name + ".falsy"] = not x
    fld("N._nameplate", b._N, "_nameplate")
    fld("S._key", b._S, "_key")
    fld("R._key", b._R, "_key")
    fld("M._mailbox", b._M, "_mailbox")
    fld("I._nameplate", b._I, "_nameplate")
    v["M.mood"] = getattr(b._M, "_mood", None) or "none"
    v["RC._stopping"] = bool(w.rc._stopping)
    v["RC._ws.isnone"] = w.rc._ws is None
    calls = [n for n, _ in w.W.calls]
    g = {"connected": w.connected, "w_closed": "closed" in calls, "api_closed": w.api_closed, "service_stopped": w.service_stopped,
         "claimed_maybe": w.claimed_maybe, "opened_maybe": w.opened_maybe, "w_code": "got_code" in calls, "w_key": "got_key" in calls,
         "w_verifier": "got_verifier" in calls, "w_versions": "got_versions" in calls, "bound": w.bound,
         "welcome_rx": w.welcome_rx, "open_sent": w.open_sent, "release_owed": w.owed["release"], "close_owed": w.owed["close"],
         "claim_owed": w.owed["claim"], "list_owed": w.owed["list"], "allocate_owed": w.owed["allocate"],
         "helper_given": w.helper is not None, "stopped_done": w.stopped_done, "rc_stop_called": bool(w.rc._stopping),
         "close_mood": w.t_moods[-1] if w.t_moods else "none",
         "stopped_pending": w.rc._connector.stop_d is not None and not w.rc._connector.stop_d.called}
    if w.rc._stopping and not g["stopped_pending"]:
        # StubService.stopService() completed synchronously: the verifier's `service.stopped` event has happened
        g["service_stopped"] = g["stopped_done"] = True
    r = b._result
    g["result_kind"] = {"str": "happy" if r == "happy" else "empty", "LonelyError": "lonely", "WrongPasswordError": "scary",
                        "ServerError": "errory", "WelcomeError": "unwelcome", "ServerConnectionError": "conn_error"}.get(
                            type(r).__name__, "other")
    for k, x in g.items():
        v["ghost." + k] = x
    return v


def random_walks_delegated(seed, seconds, maxlen=30, clauses=(), skip=HOSTILE, weight=None):
    """random legal histories (incremental: one World per walk) with a random re-entry policy per walk; complements the
    breadth-first search with long histories (reconnects, full close-down).  Returns (found, walks, states)."""
    import random
    global EVENTS
    EVENTS = events()
    evs = [(n, l, d) for n, l, d in EVENTS if not any(s in n for s in skip)]
    rnd = random.Random(seed)
    cbs = ["got_welcome", "got_code", "got_key", "got_verifier", "got_versions", "received"]
    found = {}
    t0 = time.time()
    walks = states = 0
    fails = []

    def observer(ev):
        if ev.get("isError"):
            f = ev.get("failure")
            if f is not None:
                fails.append(("logged", f.type.__name__, str(f.value)[:600], tb_tail(f), [c.__name__ for c in f.type.__mro__]))
    txlog.addObserver(observer)
    try:
        while time.time() - t0 < seconds:
            walks += 1
            policy = {c: rnd.choice(["close", "send"]) for c in rnd.sample(cbs, rnd.choice([1, 1, 2, 3]))}
            w = World(rnd.random() < 0.5, policy)
            h = []
            del fails[:]
            # bias towards making progress: an honest peer and a conformant server
            for _ in range(maxlen):
                legal = [(n, d) for n, l, d in evs if l(w)]
                if not legal:
                    break
                weights = [weight(n) if weight is not None else
                           4 if n.startswith(("peer.", "msg.claimed", "msg.released", "msg.closed", "msg.welcome({})", "ws.open"))
                           else 1 for n, _ in legal]
                n, d = rnd.choices(legal, weights)[0]
                h.append(n)
                try:
                    d(w)
                except Exception as e:      # noqa
                    allowed = [al for pre, al in API_ERRORS.items() if n.startswith(pre)]
                    if not (allowed and type(e).__name__ in allowed[0]):
                        fails.append(("raised", type(e).__name__, str(e)[:600],
                                      "".join(traceback.format_tb(e.__traceback__)[-3:]), [c.__name__ for c in type(e).__mro__]))
                w.clock.advance(0)
                w.absorb()
                fl = failures_of(w, fails, n)
                if fl:
                    for sig, detail in fl:
                        if sig not in found or len(found[sig][0]) > len(h):
                            found[sig] = (list(h), w.defer_stop, detail, list(w.W.reentered), dict(policy))
                    break
                states += 1
                if clauses:
                    val = native_valuation(w)
                    for c in clauses:
                        if all(x in val and val[x] == y for x, y in c):
                            sig = "clause-violated:" + " & ".join(f"{x}=={y}" for x, y in c)
                            if sig not in found or len(found[sig][0]) > len(h):
                                found[sig] = (list(h), w.defer_stop, "reached natively", list(w.W.reentered), dict(policy))
    finally:
        txlog.removeObserver(observer)
    return found, walks, states
