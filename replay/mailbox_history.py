"""Native replay for the mailbox cluster: searches, on the REAL classes (real Boss graph, real
automat), for a legal event history that shows the behaviour a failed obligation forbids, and
replays it.  Runs under /venv/bin/python.  The search is breadth-first over a small concrete
event alphabet that respects the same environment contract as the verifier (E1-E4); it is
only ever used to turn a refuted obligation into a concrete witness."""
import json
import sys
import time
import traceback
from collections import deque

from twisted.internet import defer, task
from twisted.python import log as txlog, failure

MAXDEPTH = 8
BUDGET_S = 60


class Recorder:
    """the application: records W.* calls"""

    def __init__(self):
        self.calls = []

    def __getattr__(self, name):
        def f(*a, **k):
            self.calls.append((name, a))
        return f


class FakeWS:
    def __init__(self):
        self.sent = []

    def sendMessage(self, payload, is_binary):
        self.sent.append(json.loads(payload.decode("utf-8")))


class StubService:
    """ClientService stand-in: never connects by itself; stopService fires at once when idle"""

    def __init__(self, *a, **k):
        self.running = False
        self.stop_d = None
        self.world = None

    def startService(self):
        self.running = True

    def whenConnected(self, failAfterFailures=None):
        return defer.Deferred()

    def stopService(self):
        self.running = False
        if self.world is not None and self.world.connected:
            self.stop_d = defer.Deferred()
            return self.stop_d
        if self.world is not None and self.world.defer_stop:
            self.stop_d = defer.Deferred()
            return self.stop_d
        return defer.succeed(None)


class World:
    def __init__(self, defer_stop=False):
        import wormhole._rendezvous as rz
        from wormhole._boss import Boss
        from wormhole.eventual import EventualQueue
        from wormhole.journal import ImmediateJournal
        from wormhole.timing import DebugTiming
        self.defer_stop = defer_stop
        self.errors = []          # (kind, detail) observed internal failures
        self.W = Recorder()
        self.clock = task.Clock()
        orig = rz.internet.ClientService
        rz.internet.ClientService = StubService
        try:
            self.boss = Boss(self.W, "side1", "ws://127.0.0.1:1/v1", "appid", {}, ("python", "v"), self.clock,
                             EventualQueue(self.clock), None, ImmediateJournal(), None, DebugTiming())
        finally:
            rz.internet.ClientService = orig
        self.rc = self.boss._RC
        self.rc._connector.world = self
        self.boss.start()
        self.helper = None
        self.connected = False
        self.ever = False
        self.ws = None
        self.api_closed = False
        self.stopped_done = False
        self.init_fail_done = False
        self.service_stopped = False
        self.seen = 0
        self.owed = dict(claim=False, release=False, close=False, allocate=False, list=False)
        self.welcome_rx = False
        self.open_sent = False
        self.bound = False

    # ---- bookkeeping of what the client sent on this connection
    def absorb(self):
        if self.ws is None:
            return
        for m in self.ws.sent[self.seen:]:
            t = m["type"]
            if t == "bind":
                self.bound = True
            if t in self.owed:
                self.owed[t] = True
            if t == "open":
                self.open_sent = True
        self.seen = len(self.ws.sent)

    def fingerprint(self):
        b = self.boss
        objs = [b, b._N, b._M, b._S, b._O, b._K, b._K._SK, b._R, b._L, b._A, b._I, b._C, b._T]
        st = []
        for o in objs:
            m = type(o).m
            tr = getattr(o, m._symbol, None)
            st.append(tr._state.method.__name__ if tr is not None else "init")
        return (tuple(st), self.connected, self.ever, self.api_closed, self.stopped_done, self.init_fail_done,
                self.service_stopped, tuple(sorted(self.owed.items())), self.welcome_rx, self.open_sent,
                self.helper is not None, self.rc._stopping, b._did_start_code,
                self.rc._connector.stop_d is not None and not self.rc._connector.stop_d.called,
                bool(b._M._pending_outbound), len(self.W.calls) > 0 and self.W.calls[-1][0] == "closed")

    # ---- events: (name, legal?(world), do(world))
    def msg(self, **m):
        self.rc.ws_message(json.dumps(m).encode("utf-8"))


def hexjson(d):
    import binascii
    return binascii.hexlify(json.dumps(d).encode()).decode()


def events():
    E = []

    def ev(name, legal, do):
        E.append((name, legal, do))
    napi = lambda w: not w.api_closed          # noqa
    ev("api.set_code('4-purple-sausages')", napi, lambda w: w.boss.set_code("4-purple-sausages"))
    ev("api.allocate_code(2)", napi, lambda w: w.boss.allocate_code(2))

    def input_code(w):
        w.helper = w.boss.input_code()
    ev("api.input_code()", napi, input_code)
    ev("api.send(b'x')", napi, lambda w: w.boss.send(b"x"))

    def close(w):
        w.api_closed = True
        w.boss.close()
    ev("api.close()", lambda w: True, close)
    hp = lambda w: napi(w) and w.helper is not None      # noqa
    ev("helper.refresh_nameplates()", hp, lambda w: w.helper.refresh_nameplates())
    ev("helper.get_nameplate_completions('')", hp, lambda w: w.helper.get_nameplate_completions(""))
    ev("helper.choose_nameplate('4')", hp, lambda w: w.helper.choose_nameplate("4"))
    ev("helper.get_word_completions('')", hp, lambda w: w.helper.get_word_completions(""))
    ev("helper.choose_words('purple-sausages')", hp, lambda w: w.helper.choose_words("purple-sausages"))

    def ws_open(w):
        w.ws = FakeWS()
        w.seen = 0
        w.connected = True
        w.ever = True
        w.rc.ws_open(w.ws)
    ev("ws.open", lambda w: not w.connected and not w.service_stopped and not w.rc._stopping and not w.init_fail_done, ws_open)

    def ws_close(w):
        w.connected = False
        w.owed = dict.fromkeys(w.owed, False)
        w.welcome_rx = w.open_sent = w.bound = False
        w.rc.ws_close(True, 1000, "bye")
    ev("ws.close", lambda w: w.connected, ws_close)

    def ws_close_never(w):
        w.service_stopped = True
        w.init_fail_done = True
        w.rc.ws_close(False, 1006, "abnormal")
    ev("ws.close_never_opened", lambda w: not w.connected and not w.ever and not w.service_stopped and not w.init_fail_done,
       ws_close_never)

    def ws_close_failed_reconnect(w):
        # a reconnection attempt whose WebSocket negotiation fails: onClose() without onOpen(), the service keeps trying
        w.rc.ws_close(False, 1006, "abnormal")
    ev("ws.close_failed_reconnect", lambda w: w.ever and not w.connected and not w.service_stopped and not w.init_fail_done,
       ws_close_failed_reconnect)

    def svc_stopped(w):
        w.stopped_done = True
        w.service_stopped = True
        d = w.rc._connector.stop_d
        w.rc._connector.stop_d = None
        d.callback(None)
    ev("service.stopped", lambda w: (not w.connected and w.rc._connector.stop_d is not None
                                     and not w.rc._connector.stop_d.called), svc_stopped)

    def init_fail(w):
        w.init_fail_done = True
        w.service_stopped = True
        w.rc._initial_connection_failed(failure.Failure(ConnectionRefusedError("refused")))
    ev("service.initial_connection_failed", lambda w: not w.connected and not w.ever and not w.init_fail_done, init_fail)
    conn = lambda w: w.connected      # noqa
    cw = lambda w: w.connected and w.welcome_rx     # noqa

    def welcome(extra):
        def f(w):
            w.welcome_rx = True
            w.msg(type="welcome", welcome=extra, server_tx=1.0)
        return f
    ev("msg.welcome({})", lambda w: conn(w) and not w.welcome_rx, welcome({}))
    ev("msg.welcome({'error': 'go away'})", lambda w: conn(w) and not w.welcome_rx, welcome({"error": "go away"}))

    def reply(kind, **fields):
        def f(w):
            w.owed[kind_req[kind]] = False
            w.msg(type=kind, **fields)
        return f
    kind_req = {"claimed": "claim", "released": "release", "closed": "close", "allocated": "allocate", "nameplates": "list"}
    ev("msg.claimed('mb1')", lambda w: cw(w) and w.owed["claim"], reply("claimed", mailbox="mb1"))
    ev("msg.released", lambda w: cw(w) and w.owed["release"] and not w.owed["claim"], reply("released"))
    ev("msg.closed", lambda w: cw(w) and w.owed["close"], reply("closed"))
    ev("msg.allocated('4')", lambda w: cw(w) and w.owed["allocate"], reply("allocated", nameplate="4"))
    ev("msg.nameplates([{'id':'4'}])", lambda w: cw(w) and w.owed["list"], reply("nameplates", nameplates=[{"id": "4"}]))
    om = lambda w: cw(w) and w.open_sent      # noqa
    for side in ("side2", "side1"):
        for phase, body in (("pake", hexjson({"pake_v1": "00"})), ("version", "00"), ("0", "00")):
            ev(f"msg.message(side={side!r}, phase={phase!r})", om,
               (lambda s, p, b: lambda w: w.msg(type="message", side=s, phase=p, body=b, id="m"))(side, phase, body))
    import binascii as _b
    bad_bodies = [("pake", "not-hex", "zz"),
                  ("pake", "hex-of-non-json", _b.hexlify(b"not json").decode()),
                  ("pake", "pake_v1-not-hex", hexjson({"pake_v1": "zz"})),
                  ("pake", "no-pake_v1", hexjson({"other": 1}))]
    for phase, label, body in bad_bodies:
        ev(f"msg.message(side='side2', phase={phase!r}, body=<{label}>)", om,
           (lambda p, b: lambda w: w.msg(type="message", side="side2", phase=p, body=b, id="m"))(phase, body))
    ev("msg.message(side='sid\u00e9', phase='version')", om,
       lambda w: w.msg(type="message", side="sid\u00e9", phase="version", body="00", id="m"))
    ev("msg.error('crowded')", lambda w: cw(w) and w.bound, lambda w: w.msg(type="error", error="crowded", orig={}))
    ev("msg.ack", cw, lambda w: w.msg(type="ack", id="a"))
    return E


EVENTS = None


def run_history(names, defer_stop=False):
    """replays a history; returns (world, failures) where failures lists internal failures observed"""
    global EVENTS
    if EVENTS is None:
        EVENTS = events()
    table = {n: (l, d) for n, l, d in EVENTS}
    fails = []

    def observer(ev):
        if ev.get("isError"):
            f = ev.get("failure")
            if f is not None:
                fails.append(("logged", f.type.__name__, str(f.value)[:300], tb_tail(f), [c.__name__ for c in f.type.__mro__]))
    txlog.addObserver(observer)
    w = None
    try:
        w = World(defer_stop)
        for n in names:
            legal, do = table[n]
            if not legal(w):
                return w, fails, False
            try:
                do(w)
            except Exception as e:      # noqa
                fails.append(("raised", type(e).__name__, str(e)[:300], "".join(traceback.format_tb(e.__traceback__)[-3:]),
                              [c.__name__ for c in type(e).__mro__]))
            w.clock.advance(0)
            w.absorb()
        return w, fails, True
    finally:
        txlog.removeObserver(observer)


def tb_tail(f):
    try:
        return "".join(traceback.format_tb(f.getTracebackObject())[-3:])
    except Exception:
        return ""


DOCUMENTED = ("LonelyError", "WrongPasswordError", "ServerError", "WelcomeError", "ServerConnectionError",
              "KeyFormatError", "OnlyOneCodeError", "WormholeClosed", "TransferError")
API_ERRORS = {"api.set_code": ("KeyFormatError", "OnlyOneCodeError"), "api.allocate_code": ("OnlyOneCodeError",),
              "api.input_code": ("OnlyOneCodeError",),
              "helper.": ("AlreadyChoseNameplateError", "MustChooseNameplateFirstError", "AlreadyChoseWordsError",
                          "KeyFormatError")}


def matches(target, w, fails, last_event):
    """does the observed behaviour show the failure the obligation forbids?"""
    kind = target.get("kind")
    import re as _re
    for how, cls, msg, tb, mro in fails:
        allowed = ()
        for pre, al in API_ERRORS.items():
            if last_event.startswith(pre):
                allowed = al
        if how == "raised" and cls in allowed:
            continue
        if kind == "nodom" and cls == "NoTransition":
            if _re.search(r"\.%s at " % _re.escape(target["input"]), msg) and \
                    _re.search(r"\.%s at " % _re.escape(target["state"]), msg) and \
                    (not target.get("machine") or (target["machine"] + ".") in msg):
                return f"{cls}: {msg}"
        if kind == "assert" and cls == "AssertionError":
            if target.get("function", "").split(".")[-1] in tb:
                return f"AssertionError in {target.get('function')}\n{tb}"
        if kind == "exc" and (cls == target.get("exc") or target.get("exc") in mro):
            return f"{cls}: {msg}\n{tb}"
        if kind == "any-internal":
            return f"{cls}: {msg}\n{tb}"
    if kind == "verdict" and w is not None:
        for name, a in w.W.calls:
            if name == "closed":
                r = a[0]
                if not (r == "happy" or type(r).__name__ in DOCUMENTED):
                    return f"closed({r!r})"
    return None


def search(rep):
    """entry point used by replay/driver.py: rep['extra'] = {target: {...}, cti: {...}}"""
    global EVENTS
    EVENTS = events()
    ex = rep.get("extra") or {}
    target = ex.get("target") or {}
    hist = ex.get("history")
    if hist:
        w, fails, legal = run_history(hist, ex.get("defer_stop", False))
        m = matches(target, w, fails, hist[-1]) if legal else None
        return (m is not None), f"history: {hist}\nobserved: {m or fails}"
    t0 = time.time()
    names = [n for n, l, d in EVENTS]
    for defer_stop in (False, True):
        seen = set()
        q = deque([[]])
        while q and time.time() - t0 < BUDGET_S:
            h = q.popleft()
            if len(h) >= MAXDEPTH:
                continue
            for n in names:
                h2 = h + [n]
                w, fails, legal = run_history(h2, defer_stop)
                if not legal:
                    continue
                m = matches(target, w, fails, n)
                if m is not None:
                    ex["history"] = h2
                    ex["defer_stop"] = defer_stop
                    return True, ("history (every event is legal under the environment contract):\n  " + "\n  ".join(h2) +
                                  f"\nobserved on the real classes: {m}\nrequired: {rep.get('clause')}")
                if fails:
                    continue      # a different failure: do not search beyond it
                fp = w.fingerprint()
                if fp in seen:
                    continue
                seen.add(fp)
                q.append(h2)
    return False, f"no history of length <= {MAXDEPTH} found within {BUDGET_S}s for {target}"


if __name__ == "__main__":
    rep = {"extra": {"target": json.loads(sys.argv[1])}, "clause": ""}
    ok, msg = search(rep)
    print(msg)
    print("REPRODUCED" if ok else "NOT-REPRODUCED")
