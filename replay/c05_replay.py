"""Native replay for C05 obligations: the real Receiver methods run against an in-memory filesystem
(os.path.exists/isdir/isfile, os.remove/rename/chmod, open, input are patched for the duration of one
call).  The solver's counterexample fixes cwd / --output-file / --accept-file / the offered names; what it
says about the filesystem is not readable from the model, so every small filesystem over the handful of
candidate paths (absent / file / directory, well-formed, working directory present) and every prompt
answer is tried.  REPRODUCED = some run of the real code violates the clause."""
import ast
import copy
import io
import itertools
import os
import posixpath
import types
from unittest import mock

import specfuncs

FAKE_CWD = "/w"


class PathSet:
    """the ghost sets self._fs.exists / isdir / isfile, natively: membership by status"""

    def __init__(self, status, kinds):
        self.status, self.kinds = dict(status), kinds

    def __contains__(self, p):
        return self.status.get(p, "-") in self.kinds

    def members(self):
        return {p for p, s in self.status.items() if s in self.kinds}

    def __eq__(self, other):
        return self.members() == other.members()


class GhostFS:
    def __init__(self, status):
        self.status = dict(status)

    exists = property(lambda self: PathSet(self.status, "fdx"))
    isdir = property(lambda self: PathSet(self.status, "d"))
    isfile = property(lambda self: PathSet(self.status, "f"))


def decode(v):
    if isinstance(v, dict):
        if "__bytes__" in v:
            return bytes(x & 0xff for x in v["__bytes__"])
        if "__tuple__" in v:
            return tuple(decode(x) for x in v["__tuple__"])
        return {k: decode(x) for k, x in v.items()}
    if isinstance(v, list):
        return [decode(x) for x in v]
    return v


def candidates(cwd, of, names):
    with mock.patch.object(os, "getcwd", lambda: FAKE_CWD):
        A = posixpath.abspath(cwd)
        out = [A, posixpath.dirname(A)]
        bases = [A]
        if of:
            O = posixpath.abspath(posixpath.join(cwd, of))
            out += [O, posixpath.dirname(O)]
            bases.append(O)
        for n in names:
            if isinstance(n, str):
                for b in bases:
                    out.append(posixpath.abspath(posixpath.join(b, posixpath.basename(n))))
                    out.append(posixpath.abspath(posixpath.join(b, n)))
    uniq = []
    for p in out:
        if p not in uniq:
            uniq.append(p)
    return A, uniq[:7]


def wellformed(status, A):
    if status.get(A) != "d":
        return False
    for p, s in status.items():
        if s != "-":
            par = posixpath.dirname(p)
            if par in status and par != p and status[par] != "d":
                return False
    return True


def one_run(cls, fname, argsd, call_args, status, answer):
    """run the real method once; returns (result, raised, events, old ghost fs, self)"""
    fs = GhostFS(status)
    old_fs = GhostFS(status)
    events = []

    def remove(p):
        if fs.status.get(p, "-") in "-d":
            raise OSError("remove: missing or a directory")
        events.append(("remove", [p]))
        fs.status[p] = "-"

    def rename(a, b):
        events.append(("rename", [a, b]))
        fs.status[b] = fs.status.get(a, "-")
        fs.status[a] = "-"

    def fake_open(p, mode="r", *a, **k):
        if any(ch in mode for ch in "wax+"):
            events.append(("open", [p, mode]))
            fs.status[p] = "f"
        f = io.BytesIO()
        f.name = p
        return f

    class ZF:
        def extract(self, name, path=None):
            events.append(("extract", [name, path]))
            return posixpath.join(path, name)

    r = object.__new__(cls)
    from wormhole.timing import DebugTiming
    r.args = types.SimpleNamespace(stderr=io.StringIO(), stdout=io.StringIO(), timing=DebugTiming(), hide_progress=True, **argsd)
    r._fs = fs
    for k in ("abs_destname", "xfersize"):
        if k in call_args.get("__self__", {}):
            setattr(r, k, call_args["__self__"][k])
    kwargs = {k: v for k, v in call_args.items() if k != "__self__"}
    if "zf" in kwargs:
        kwargs["zf"] = ZF()
    if "info" in kwargs:
        kwargs["info"] = types.SimpleNamespace(filename=kwargs["info"][0], external_attr=kwargs["info"][1])
    import wormhole.cli.cmd_receive as M
    old_self = copy.copy(r)
    old_self._fs = old_fs
    result = raised = None
    with mock.patch.object(os, "getcwd", lambda: FAKE_CWD), \
            mock.patch.object(os.path, "exists", lambda p: p in fs.exists), \
            mock.patch.object(os.path, "isdir", lambda p: p in fs.isdir), \
            mock.patch.object(os.path, "isfile", lambda p: p in fs.isfile), \
            mock.patch.object(os, "remove", remove), mock.patch.object(os, "rename", rename), \
            mock.patch.object(os, "chmod", lambda p, m: events.append(("chmod", [p, m]))), \
            mock.patch.object(M, "open", fake_open, create=True), \
            mock.patch.object(M, "input", lambda prompt="": answer, create=True), \
            mock.patch.object(M, "estimate_free_space", lambda t: None):
        try:
            result = getattr(r, fname)(**kwargs)
        except BaseException as e:      # noqa
            raised = e
    return result, raised, events, old_self, r


def clause_env(events, dest_for_confined=None):
    def evs(op=None):
        return [e for e in events if op is None or e[0] == op]

    def fs_confined(dest):
        ok = True
        for op, a in events:
            if op == "rename":
                ok = ok and specfuncs.within(a[0], dest) and specfuncs.within(a[1], dest)
            elif op == "extract":
                ok = ok and a[1] == dest and specfuncs.below(posixpath.abspath(posixpath.join(a[1], a[0])), dest)
            else:
                ok = ok and specfuncs.within(a[0], dest)
        return ok

    env = dict(specfuncs.NATIVE)
    env.update({"n_fs": lambda op=None: len(evs(op)), "fs_ops": lambda: [e[0] for e in events],
                "fs_arg": lambda op, k, i: (evs(op)[k][1][i] if k < len(evs(op)) else None),
                "fs_confined": fs_confined, "fs_only": lambda *ops: all(e[0] in ops for e in events),
                "fs_wellformed_at": lambda fs, p: True,
                "ite": lambda c, a, b: a if c else b})
    return env


def evaluate(clause, env, oldenv):
    class Rew(ast.NodeTransformer):
        def visit_Call(self, node):
            if isinstance(node.func, ast.Name) and node.func.id == "old":
                val = eval(compile(ast.Expression(node.args[0]), "<old>", "eval"), oldenv)
                name = f"__old{len(env)}"
                env[name] = val
                return ast.copy_location(ast.Name(name, ast.Load()), node)
            if isinstance(node.func, ast.Name) and node.func.id == "implies":
                a, b = self.visit(node.args[0]), self.visit(node.args[1])
                return ast.copy_location(ast.BoolOp(ast.Or(), [ast.UnaryOp(ast.Not(), a), b]), node)
            return self.generic_visit(node)
    tree = ast.fix_missing_locations(Rew().visit(ast.parse(clause.strip(), mode="eval")))
    return eval(compile(tree, "<clause>", "eval"), env)


def run(rep):
    import wormhole.cli.cmd_receive as M
    target = rep["target"]
    fname = target.split(".")[-1]
    inputs = rep.get("inputs") or {}
    if "_in_cwd" not in inputs:
        return False, "the counterexample does not carry args.cwd / output_file / accept_file (path cut before the end)"
    argsd = {"cwd": inputs["_in_cwd"], "output_file": inputs.get("_in_output_file"), "accept_file": bool(inputs.get("_in_accept_file"))}
    call_args = {k: decode(v) for k, v in inputs.items() if not k.startswith("_") and k != "self"
                 and not (isinstance(v, dict) and "__obj__" in v)}
    for k, v in inputs.items():
        if isinstance(v, dict) and v.get("__obj__") in ("File", "SpooledTemporaryFile") and k != "self":
            f = io.BytesIO()
            f.name = decode(v.get("fields", {}).get("name", "/nowhere"))
            call_args[k] = f
        if isinstance(v, dict) and v.get("__obj__") == "ZipFile":
            call_args[k] = None
    selfd = (inputs.get("self") or {}).get("fields", {})
    call_args["__self__"] = {k: decode(v) for k, v in selfd.items() if k in ("abs_destname", "xfersize")}
    names = []
    for v in call_args.values():
        if isinstance(v, str):
            names.append(v)
        if isinstance(v, dict):
            for sub in v.values():
                if isinstance(sub, dict):
                    names += [x for x in sub.values() if isinstance(x, str)]
    if "abs_destname" in call_args["__self__"]:
        names.append(call_args["__self__"]["abs_destname"])
    A, cands = candidates(argsd["cwd"], argsd["output_file"], names)
    kind, clause, exc = rep.get("kind"), rep.get("clause"), rep.get("exc")
    ob_name = rep.get("obligation") or ""
    if "raises[" in ob_name or "ensures_raise[" in ob_name:
        exc = ob_name.split("raise[" if "ensures_raise[" in ob_name else "raises[")[1].split("]")[0]

    def is_exc(e):
        return e is not None and exc is not None and any(c.__name__ == exc for c in type(e).__mro__)
    tried = 0
    for combo in itertools.product("-fd", repeat=len(cands)):
        status = dict(zip(cands, combo))
        status["/"] = "d"
        if not wellformed(status, A):
            continue
        for answer in ("y", "n"):
            tried += 1
            result, raised, events, old_self, r = one_run(M.Receiver, fname, argsd, call_args, status, answer)
            env, oldenv = clause_env(events), clause_env([])
            env.update({k: v for k, v in call_args.items() if k != "__self__"})
            env.update({"self": r, "result": result})
            oldenv.update({k: v for k, v in call_args.items() if k != "__self__"})
            oldenv["self"] = old_self
            bad = False
            try:
                with mock.patch.object(os, "getcwd", lambda: FAKE_CWD):
                    if kind == "no-exception":
                        bad = is_exc(raised)
                    elif kind in ("ensures", "effects") and raised is None:
                        bad = not evaluate(clause, env, oldenv)
                    elif kind == "ensures-raise" and is_exc(raised):
                        bad = not evaluate(clause, env, oldenv)
                    elif kind == "raises-cond" and is_exc(raised):
                        bad = not evaluate(clause, oldenv, oldenv)
                    elif kind == "raises-iff" and raised is None:
                        bad = bool(evaluate(clause, oldenv, oldenv))
            except Exception:
                bad = False        # clause not evaluable in this configuration: not a witness
            if bad:
                return True, (f"real {target} with args={argsd} call={ {k: v for k, v in call_args.items() if k != '__self__'} } "
                              f"filesystem={ {p: s for p, s in status.items() if s != '-'} } answer={answer!r}: "
                              f"{'raised ' + type(raised).__name__ if raised is not None else 'returned ' + repr(result)}; "
                              f"filesystem events {events}; violates [{kind}] {clause or exc}")
    return False, f"{tried} filesystem configurations tried, none violates the clause"
