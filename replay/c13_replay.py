"""Native replays for C13 (run by replay/driver.py under /venv/bin/python against the real code)."""
from unittest import mock


def wiring(rep):
    """Manager.__attrs_post_init__.ensures.demultiplexer-enforces-the-set-the-application-declared:
    build a real Manager exactly as Dilator.dilate does, with expected_subprotocols={"good"}, then let the
    peer OPEN a subchannel for "evil" (no listener): the statement wants it refused by CLOSE."""
    from zope.interface import alsoProvides
    from twisted.internet.task import Clock, Cooperator
    from wormhole._interfaces import ISend
    from wormhole.eventual import EventualQueue
    from wormhole._dilation.manager import Manager, DILATION_VERSIONS

    send = mock.Mock()
    alsoProvides(send, ISend)
    clock = Clock()
    eq = EventualQueue(clock)
    coop = Cooperator(scheduler=eq.eventually)
    expected = {"good"}
    m = Manager(send, "0011223344556677", None, clock, eq, coop, DILATION_VERSIONS, 30.0, expected)
    demux = m._subprotocol_factories
    lines = [f"Manager(..., expected_subprotocols={expected!r}) -> _subprotocol_factories._expected = {demux._expected!r}"]
    wired = demux._expected == m._expected_subprotocols
    closes = []
    m.send_close = lambda scid: closes.append(scid)
    m._inbound.handle_open(5, "evil")
    held = 5 in m._inbound._open_subchannels
    lines.append(f"peer OPEN(scid=5, subprotocol='evil'): send_close calls={closes!r}, still registered={held}, "
                 f"pending opens={dict(demux._pending_opens)!r}")
    lines.append("required: _expected == Manager._expected_subprotocols, and the OPEN refused by CLOSE(5)")
    bad = (not wired) or held or closes != [5]
    return bad, "\n".join(lines)
