"""Native replays for C13 (run by replay/driver.py under /venv/bin/python against the real code)."""
from unittest import mock


def wiring(rep):
    """Manager.__attrs_post_init__.ensures.demultiplexer-enforces-the-set-the-application-declared:
    build a real Manager exactly as Dilator.dilate does, with expected_subprotocols={"good"}, then let the
    peer OPEN a subchannel for "evil" (no listener): the statement wants it refused by CLOSE."""
    from zope.interface import alsoProvides
    from twisted.internet.task import Clock, Cooperator
    from wormhole._interfaces import ISend
    from wormhole.eventual import EventualQueue
    from wormhole._dilation.manager import Manager, DILATION_VERSIONS

    send = mock.Mock()
    alsoProvides(send, ISend)
    clock = Clock()
    eq = EventualQueue(clock)
    coop = Cooperator(scheduler=eq.eventually)
    expected = {"good"}
    m = Manager(send, "0011223344556677", None, clock, eq, coop, DILATION_VERSIONS, 30.0, expected)
    demux = m._subprotocol_factories
    lines = [f"Manager(..., expected_subprotocols={expected!r}) -> _subprotocol_factories._expected = {demux._expected!r}"]
    wired = demux._expected == m._expected_subprotocols
    closes = []
    m.send_close = lambda scid: closes.append(scid)
    m._inbound.handle_open(5, "evil")
    held = 5 in m._inbound._open_subchannels
    lines.append(f"peer OPEN(scid=5, subprotocol='evil'): send_close calls={closes!r}, still registered={held}, "
                 f"pending opens={dict(demux._pending_opens)!r}")
    lines.append("required: _expected == Manager._expected_subprotocols, and the OPEN refused by CLOSE(5)")
    bad = (not wired) or held or closes != [5]
    return bad, "\n".join(lines)


# ------------------------------------------------------------------ endpoints (connect / listen): canonical scenarios
def _endpoint_world():
    """a recording IDilationManager around the REAL Inbound / SubchannelDemultiplex / Manager.allocate_subchannel_id"""
    from zope.interface import implementer
    from twisted.internet.defer import Deferred
    from wormhole._interfaces import IDilationManager
    from wormhole._dilation.subchannel import SubchannelDemultiplex, _WormholeAddress
    from wormhole._dilation.inbound import Inbound
    from wormhole._dilation.manager import Manager

    events = []

    class Chan:
        def __init__(self):
            self.d = Deferred()

        def when_fired(self):
            events.append(("when_fired",))
            return self.d

    @implementer(IDilationManager)
    class M:
        def __init__(self):
            self._next_subchannel_id = 7
            self._main_channel = Chan()
            self._host_addr = _WormholeAddress()
            self._subprotocol_factories = SubchannelDemultiplex()
            self._inbound = Inbound(self, self._host_addr)

        def allocate_subchannel_id(self):
            r = Manager.allocate_subchannel_id(self)
            events.append(("allocate", r))
            return r

        def send_open(self, scid, name):
            events.append(("send_open", scid, name))

        def send_close(self, scid):
            events.append(("send_close", scid))

        def subchannel_local_open(self, scid, sc):
            events.append(("local_open", scid, sc))
            self._inbound.subchannel_local_open(scid, sc)

        def _register_subprotocol_factory(self, name, factory):
            events.append(("register", name, factory))
            Manager._register_subprotocol_factory(self, name, factory)

    return M(), events


def _endpoint_connect(rep):
    """SubchannelConnectorEndpoint.connect on the real classes: (1) nothing happens before the main channel fires, (2) after it
    fired: one id (the manager's next), one OPEN(id, name), one SubChannel(id) registered BEFORE buildProtocol, attached, then
    makeConnection, result is that protocol, (3) main channel failed: nothing at all, the failure is passed on"""
    from twisted.python.failure import Failure
    from wormhole._dilation.subchannel import SubchannelConnectorEndpoint
    from wormhole._dilation.manager import OldPeerCannotDilateError
    lines, bad = [], False
    m, ev = _endpoint_world()

    class Proto:
        def makeConnection(self, t):
            ev.append(("makeConnection", self, t, t._protocol is self))

    class Factory:
        def buildProtocol(self, addr):
            p = Proto()
            ev.append(("buildProtocol", addr.subprotocol, p, dict(m._inbound._open_subchannels)))
            return p

    ep = SubchannelConnectorEndpoint("Proto/1", m, m._host_addr, None)
    res = []
    ep.connect(Factory()).addBoth(res.append)
    lines.append(f"connect() before the main channel fired: events {[e[0] for e in ev]}")
    bad |= [e[0] for e in ev] != ["when_fired"] or bool(res)
    m._main_channel.d.callback(None)
    names = [e[0] for e in ev]
    lines.append(f"after it fired: events {names}, result {res!r}, next id {m._next_subchannel_id}")
    want = ["when_fired", "allocate", "send_open", "local_open", "buildProtocol", "makeConnection"]
    ok = names == want
    if ok:
        scid = ev[1][1]
        sc = ev[3][2]
        p = ev[4][2]
        ok = (scid == 7 and m._next_subchannel_id == 9 and ev[2] == ("send_open", 7, "Proto/1") and ev[3][1] == 7 and
              sc._scid == 7 and sc._manager is m and sc._peer_addr.subprotocol == "Proto/1" and
              ev[4][1] == "Proto/1" and ev[4][3].get(7) is sc and ev[5][1] is p and ev[5][2] is sc and ev[5][3] and
              res == [p] and sc._protocol is p and sc._pending_remote_data == [] and not sc._pending_remote_close and
              m._inbound._open_subchannels.get(7) is sc)
    bad |= not ok
    lines.append("required: when_fired, allocate(7), send_open(7,'Proto/1'), SubChannel(7) registered, buildProtocol, _set_protocol, "
                 "makeConnection, result is the protocol -> " + ("ok" if ok else "VIOLATED"))
    m2, ev2 = _endpoint_world()
    ep2 = SubchannelConnectorEndpoint("Proto/1", m2, m2._host_addr, None)
    res2 = []
    ep2.connect(Factory()).addBoth(res2.append)
    m2._main_channel.d.errback(Failure(OldPeerCannotDilateError()))
    ok2 = [e[0] for e in ev2] == ["when_fired"] and len(res2) == 1 and isinstance(res2[0], Failure) and \
        res2[0].check(OldPeerCannotDilateError) is not None and m2._next_subchannel_id == 7 and not m2._inbound._open_subchannels
    lines.append(f"main channel failed: events {[e[0] for e in ev2]}, result {res2!r} -> " + ("ok" if ok2 else "VIOLATED"))
    bad |= not ok2
    return bad, "\n".join(lines)


def _endpoint_listen(rep):
    """SubchannelListenerEndpoint.listen on the real classes: OPENs held before are connected once each in arrival order at
    registration (and only after the main channel fired), a later OPEN goes straight to the factory, other names stay held"""
    from unittest import mock as _mock
    from twisted.python.failure import Failure
    from wormhole._dilation.subchannel import SubchannelListenerEndpoint
    from wormhole._dilation.manager import OldPeerCannotDilateError
    lines, bad = [], False
    m, ev = _endpoint_world()
    built = []

    class Factory:
        def buildProtocol(self, addr):
            p = _mock.Mock()
            built.append((addr.subprotocol, p))
            return p

    m._inbound.handle_open(2, "Proto/1")
    m._inbound.handle_open(4, "other")
    m._inbound.handle_open(6, "Proto/1")
    held = [m._inbound._open_subchannels[k] for k in (2, 6)]
    f = Factory()
    res = []
    SubchannelListenerEndpoint("Proto/1", m).listen(f).addBoth(res.append)
    lines.append(f"listen() before the main channel fired: events {[e[0] for e in ev]}, protocols built {len(built)}")
    bad |= [e[0] for e in ev] != ["when_fired"] or bool(built) or bool(res)
    m._main_channel.d.callback(None)
    order = [p.makeConnection.call_args[0][0] for _, p in built]
    ok = [e[0] for e in ev] == ["when_fired", "register"] and ev[1][1:] == ("Proto/1", f) and \
        [n for n, _ in built] == ["Proto/1", "Proto/1"] and order == held and \
        all(sc._protocol is p for sc, (_, p) in zip(held, built)) and \
        len(m._subprotocol_factories._pending_opens.get("Proto/1", ())) == 0 and \
        len(m._subprotocol_factories._pending_opens["other"]) == 1 and len(res) == 1 and \
        not isinstance(res[0], Failure) and res[0].getHost() is m._host_addr
    lines.append(f"after it fired: events {[e[0] for e in ev]}, built {[n for n, _ in built]}, in arrival order {order == held}, "
                 f"result {res!r} -> " + ("ok" if ok else "VIOLATED"))
    bad |= not ok
    m._inbound.handle_open(8, "Proto/1")
    ok3 = len(built) == 3 and built[2][1].makeConnection.call_args[0][0] is m._inbound._open_subchannels[8]
    lines.append("a later OPEN for the name goes straight to the factory -> " + ("ok" if ok3 else "VIOLATED"))
    bad |= not ok3
    m2, ev2 = _endpoint_world()
    res2 = []
    SubchannelListenerEndpoint("Proto/1", m2).listen(f).addBoth(res2.append)
    m2._main_channel.d.errback(Failure(OldPeerCannotDilateError()))
    ok2 = [e[0] for e in ev2] == ["when_fired"] and len(res2) == 1 and isinstance(res2[0], Failure) and \
        "Proto/1" not in m2._subprotocol_factories._factories
    lines.append(f"main channel failed: events {[e[0] for e in ev2]}, result {res2!r} -> " + ("ok" if ok2 else "VIOLATED"))
    bad |= not ok2
    return bad, "\n".join(lines)


def _guarded(fn):
    def run(rep):
        import traceback
        try:
            return fn(rep)
        except Exception:       # noqa: the canonical scenario itself blew up inside the real code
            return True, "the canonical scenario raised inside the real code:\n" + traceback.format_exc(limit=6)
    run.__doc__ = fn.__doc__
    return run


endpoint_connect = _guarded(_endpoint_connect)
endpoint_listen = _guarded(_endpoint_listen)
