"""Native replay: runs under /venv/bin/python against the real, imported repository code.

usage: driver.py <replay.json>
Prints REPRODUCED if the real code shows the behaviour the failed obligation forbids,
NOT-REPRODUCED otherwise.  Exit status is 0 in both cases (1 only on a driver error)."""
import copy
import importlib
import json
import os
import sys
import traceback

sys.path.insert(0, os.path.dirname(os.path.abspath(__file__)))
REPO_SRC = os.path.join(os.environ.get("VERIF_REPO", "/repo"), "src")
sys.path.insert(0, REPO_SRC)
import specfuncs  # noqa: E402


NS = {}


def decode(v):
    if isinstance(v, dict):
        if "__bytes__" in v:
            return bytes(x & 0xff for x in v["__bytes__"])
        if "__tuple__" in v:
            items = tuple(decode(x) for x in v["__tuple__"])
            cls = NS.get(v.get("nt")) if v.get("nt") else None
            if cls is not None:
                try:
                    return cls(*items)
                except Exception:
                    pass
            return items
        if "__obj__" in v:
            return v
        if "__set__" in v:
            try:
                return set(decode(x) for x in v.get("members", []))
            except TypeError:
                return set()
        if "__map__" in v:
            try:
                return {decode(k): decode(x) for k, x in v.get("items", [])}
            except TypeError:
                return {}
        if "__opaque__" in v:
            return object()
        return {k: decode(x) for k, x in v.items()}
    if isinstance(v, list):
        return [decode(x) for x in v]
    return v


def resolve(target):
    rel, qn = target.split(":")
    modname = rel[:-3].replace("/", ".")
    mod = importlib.import_module(modname)
    obj = mod
    cls = None
    parts = qn.split(".")
    for i, p in enumerate(parts):
        if i == len(parts) - 1 and cls is not None:
            return mod, cls, (cls.__dict__[p] if p in cls.__dict__ else getattr(cls, p))
        obj = getattr(obj, p)
        if isinstance(obj, type):
            cls = obj
    return mod, None, obj


class Blank:
    pass


def build_self(cls, fields):
    o = object.__new__(cls)
    for k, v in fields.items():
        try:
            object.__setattr__(o, k, decode(v))
        except Exception:
            pass
    return o


def alias_replay(rep):
    """frame.no-aliasing: run the real method on an object whose declared fields are separate
    objects and look for two attributes that hold one and the same mutable container afterwards"""
    import collections
    import inspect
    mod, cls, fn = resolve(rep["target"])
    NS.update(vars(mod))
    inputs = rep.get("inputs") or {}
    if not isinstance(inputs, dict) or "__error__" in inputs:
        inputs = {}
    selfv = inputs.get("self") or {}
    selfobj = build_self(cls, selfv.get("fields", {}) if isinstance(selfv, dict) else {})
    f = fn.__func__ if isinstance(fn, (staticmethod, classmethod)) else fn
    if not inspect.isfunction(f) and hasattr(f, "method"):
        f = f.method
    sig = inspect.signature(f)
    args = {k: decode(v) for k, v in inputs.items() if k in sig.parameters and k != "self"}
    try:
        f(selfobj, **args)
    except BaseException as e:   # noqa
        print(f"raised {type(e).__name__}: {e}")
    seen = {}
    shared = []
    for k, v in sorted(vars(selfobj).items()):
        if isinstance(v, (list, dict, set, collections.deque)):
            if id(v) in seen:
                shared.append((seen[id(v)], k))
            seen.setdefault(id(v), k)
    print(f"called {rep['target']}; attributes holding one and the same mutable object afterwards: {shared}")
    print("REPRODUCED" if shared else "NOT-REPRODUCED")


def main(path):
    rep = json.load(open(path))
    if rep.get("kind") == "frame" and str(rep.get("obligation", "")).split("__")[0].endswith(".frame.no-aliasing"):
        return alias_replay(rep)
    spec = rep.get("replay_spec") or {}
    if spec.get("driver"):
        modname, fn = spec["driver"].split(":")
        mod = importlib.import_module(modname)
        ok, msg = getattr(mod, fn)(rep)
        print(msg)
        print("REPRODUCED" if ok else "NOT-REPRODUCED")
        return
    if rep.get("extra") and rep["extra"].get("driver"):
        modname, fn = rep["extra"]["driver"].split(":")
        mod = importlib.import_module(modname)
        ok, msg = getattr(mod, fn)(rep)
        print(msg)
        print("REPRODUCED" if ok else "NOT-REPRODUCED")
        return
    target = rep["target"]
    if rep.get("lemma"):
        import textwrap
        mod = importlib.import_module(rep["lemma"]["module"][:-3].replace("/", "."))
        ns = dict(vars(mod))
        exec(textwrap.dedent(rep["lemma"]["source"]), ns)
        cls, fn = None, ns[target.split(":")[1]]
    else:
        mod, cls, fn = resolve(target)
    NS.update(vars(mod))
    inputs = rep.get("inputs") or {}
    if "__error__" in inputs:
        print("no concrete input could be extracted from the solver model")
        print("NOT-REPRODUCED")
        return
    args = {}
    selfobj = None
    for k, v in inputs.items():
        if isinstance(v, dict) and "__obj__" in v and k != "self":
            oc = NS.get(v["__obj__"])
            args[k] = build_self(oc, v.get("fields", {})) if isinstance(oc, type) else Blank()
            continue
        if k == "self":
            selfobj = None
            if rep.get("warmup_calls"):
                # a history, not a state: the object is made by its real constructor (no arguments), so whatever the
                # earlier calls leave behind is a reachable state
                try:
                    selfobj = cls()
                    for fk, fv in (v.get("fields", {}) or {}).items():
                        object.__setattr__(selfobj, fk, decode(fv))
                except Exception as e:     # noqa
                    print(f"cannot construct {cls.__name__}() for a call history: {e!r}")
                    print("NOT-REPRODUCED")
                    return
            if selfobj is None:
                selfobj = build_self(cls, v.get("fields", {}))
        elif "." in k or k.startswith("_"):
            continue
        else:
            args[k] = decode(v)
    import inspect
    f = fn.__func__ if isinstance(fn, (staticmethod, classmethod)) else fn
    if not inspect.isfunction(f) and hasattr(f, "method"):
        f = f.method          # automat MethodicalOutput / MethodicalInput wrap the real function
    sig = inspect.signature(f)
    call_args = {k: v for k, v in args.items() if k in sig.parameters}
    for wi, wc in enumerate(rep.get("warmup_calls") or []):
        wargs = dict(call_args)
        wargs.update({k: decode(x) for k, x in wc.items() if k in sig.parameters})
        try:
            wr = f(selfobj, **wargs) if selfobj is not None else f(**wargs)
            print(f"earlier call {wi} on the same object: {target} with {wargs!r} returned {wr!r}"[:600])
        except BaseException as e:       # noqa
            print(f"earlier call {wi} on the same object: {target} with {wargs!r} raised {type(e).__name__}: {e}"[:600])
    old = {"self": copy.deepcopy(selfobj) if selfobj is not None else None}
    for k, v in call_args.items():
        try:
            old[k] = copy.deepcopy(v)
        except Exception:
            old[k] = v
    print(f"calling {target} with {call_args!r}" + (f" self={getattr(selfobj, '__dict__', None)!r}" if selfobj is not None else ""))
    raised = None
    result = None
    try:
        if selfobj is not None:
            result = f(selfobj, **call_args)
        else:
            result = f(**call_args)
    except BaseException as e:       # noqa
        raised = e
    kind = rep.get("kind")
    print("observed:", f"raised {type(raised).__name__}: {raised}" if raised is not None else f"returned {result!r}")
    if kind == "no-exception":
        want = rep.get("exc")
        ok = raised is not None and (type(raised).__name__ == want or any(c.__name__ == want for c in type(raised).__mro__))
        print(f"required: no {want} (the contract allows no such exception for this input)")
        print("REPRODUCED" if ok else "NOT-REPRODUCED")
        return
    clause = rep.get("clause")
    env = dict(specfuncs.NATIVE)
    env.update(call_args)
    env["self"] = selfobj
    env["result"] = result
    oldenv = dict(specfuncs.NATIVE)
    oldenv.update(old)

    # quantifiers are evaluated over the values that occur in the pre- and post-state (finitely many candidates):
    # a candidate that falsifies the body is a genuine witness; if none does the replay is inconclusive
    pool = {"str": {"", "x"}, "int": {0, 1, -1}, "bytes": {b""}}

    def harvest(v, depth=0):
        if depth > 4:
            return
        if isinstance(v, bool):
            return
        if isinstance(v, str):
            pool["str"].add(v)
        elif isinstance(v, int):
            pool["int"].update((v, v + 1, v - 1))
        elif isinstance(v, bytes):
            pool["bytes"].add(v)
        elif isinstance(v, dict):
            for k, x in v.items():
                harvest(k, depth + 1)
                harvest(x, depth + 1)
        elif isinstance(v, (list, tuple, set, frozenset)) or type(v).__name__ == "deque":
            for x in list(v)[:50]:
                harvest(x, depth + 1)
        elif hasattr(v, "__dict__"):
            for x in list(vars(v).values())[:50]:
                harvest(x, depth + 1)

    for v_ in list(call_args.values()) + [selfobj, result] + list(old.values()):
        harvest(v_)

    def _cands(f, types):
        import inspect as _insp
        import itertools as _it
        n = len(_insp.signature(f).parameters)
        tys = list(types) + ["int"] * (n - len(types))
        doms = [sorted(pool.get(t, pool["int"]), key=repr)[:40] for t in tys[:n]]
        return _it.islice(_it.product(*doms), 20000)

    def forall(f, *types):
        return all(f(*c) for c in _cands(f, types))

    def exists(f, *types):
        return any(f(*c) for c in _cands(f, types))

    for e_ in (env, oldenv):
        e_["forall"], e_["exists"] = forall, exists

    class OldProxy:
        def __call__(self, x):
            return x
    # old(e): evaluate e in the pre-state: done by textual substitution of old(...) calls
    import ast

    class Rew(ast.NodeTransformer):
        def visit_Call(self, node):
            if isinstance(node.func, ast.Name) and node.func.id == "old":
                val = eval(compile(ast.Expression(node.args[0]), "<old>", "eval"), oldenv)
                name = f"__old{len(env)}"
                env[name] = val
                return ast.copy_location(ast.Name(name, ast.Load()), node)
            if isinstance(node.func, ast.Name) and node.func.id == "implies":
                a = self.visit(node.args[0])
                b = self.visit(node.args[1])
                return ast.copy_location(ast.BoolOp(ast.Or(), [ast.UnaryOp(ast.Not(), a), b]), node)
            return self.generic_visit(node)

    if not isinstance(clause, str):
        print("clause is not replayable natively")
        print("NOT-REPRODUCED")
        return
    tree = ast.parse(clause.strip(), mode="eval")
    if kind in ("ensures",):
        if raised is not None:
            print("function raised; the ensures clause is about normal return")
            print("NOT-REPRODUCED")
            return
        tree = ast.fix_missing_locations(Rew().visit(tree))
        val = eval(compile(tree, "<clause>", "eval"), env)
        print(f"required: {clause}  -> evaluates to {val!r}")
        print("REPRODUCED" if not val else "NOT-REPRODUCED")
        return
    if kind in ("raises-cond",):
        if raised is None:
            print("NOT-REPRODUCED")
            return
        val = eval(compile(tree, "<clause>", "eval"), oldenv)
        print(f"raised although the condition under which it may is false: {clause} -> {val!r}")
        print("REPRODUCED" if not val else "NOT-REPRODUCED")
        return
    if kind in ("raises-iff",):
        val = eval(compile(tree, "<clause>", "eval"), oldenv)
        print(f"required to raise when: {clause} -> {val!r}; raised={raised is not None}")
        print("REPRODUCED" if (val and raised is None) else "NOT-REPRODUCED")
        return
    if kind == "frame" and ".frame." in str(rep.get("obligation", "")):
        fld = str(rep["obligation"]).split(".frame.")[-1].split("__")[0]
        if selfobj is not None and old.get("self") is not None and hasattr(selfobj, fld) and hasattr(old["self"], fld):
            same = getattr(selfobj, fld) == getattr(old["self"], fld)
            print(f"required: self.{fld} unchanged; before {getattr(old['self'], fld)!r}, after {getattr(selfobj, fld)!r}")
            print("REPRODUCED" if not same else "NOT-REPRODUCED")
            return
    if kind in ("ensures-raise", "frame"):
        tree = ast.fix_missing_locations(Rew().visit(tree)) if kind == "ensures-raise" else tree
        try:
            val = eval(compile(tree, "<clause>", "eval"), env)
        except Exception as e:
            print("clause not evaluable natively:", e)
            print("NOT-REPRODUCED")
            return
        print(f"required: {clause} -> {val!r}")
        print("REPRODUCED" if not val else "NOT-REPRODUCED")
        return
    print(f"no native replay for obligation kind {kind!r}")
    print("NOT-REPRODUCED")

# ------------------------------------------------------------------ xcheck mode (pyvc/xcheck.py)
class XForbidden(BaseException):
    """the real code tried something the cross-check does not allow (writing files, processes, sockets, stdin)"""


class XTimeout(BaseException):
    pass


class _XAllInterfaces:
    """zope: IFoo.providedBy(stand-in): on our side that is whatever the property module's model of `providedBy` says
    (a ghost field of the collaborator, ...), which the stand-in cannot know: the run is abandoned"""
    extends = None

    def __call__(self, iface):
        raise XForbidden("modelled-collaborator:providedBy")

    def isOrExtends(self, iface):
        raise XForbidden("modelled-collaborator:providedBy")


class XFake:
    """stand-in for a collaborator / opaque token: inert; a call on it is recorded (and returns None)"""
    calls = []
    __providedBy__ = __provides__ = _XAllInterfaces()

    def __init__(self, name, opaque=False):
        object.__setattr__(self, "_xname", name)
        object.__setattr__(self, "_xopaque", opaque)

    def __getattr__(self, attr):
        if attr.startswith("__") and attr.endswith("__"):
            raise AttributeError(attr)
        name = object.__getattribute__(self, "_xname")

        if MODELLED & {f"{name}.{attr}", f"*.{attr}", f"{name}.*"}:
            # this collaborator method has a behavioural model on our side (not the recording default): a stand-in
            # that returns None is not what the symbolic path assumed
            raise XForbidden("modelled-collaborator:%s.%s" % (name, attr))

        def rec(*a, **kw):
            XFake.calls.append({"on": name, "m": attr, "nkw": len(kw),
                                "args": [dict(zip(("ok", "v"), xcanon(x))) for x in a]})
            return None
        return rec

    def __call__(self, *a, **kw):
        name = object.__getattribute__(self, "_xname")
        if object.__getattribute__(self, "_xopaque"):
            # an opaque callable handed in from outside: the event is named after it and carries the callable first
            XFake.calls.append({"on": "callback", "m": name, "nkw": len(kw),
                                "args": [{"ok": False, "v": None}] + [dict(zip(("ok", "v"), xcanon(x))) for x in a]})
            return None
        XFake.calls.append({"on": name, "m": "__call__", "nkw": len(kw),
                            "args": [dict(zip(("ok", "v"), xcanon(x))) for x in a]})
        return None

    def __conform__(self, iface):
        return self           # zope adapters IFoo(x) are the identity on our side (dropped syntax)

    def __repr__(self):
        return "<XFake %s>" % object.__getattribute__(self, "_xname")


class XDropped:
    """self._timing and friends: calls the extraction drops (DROPPED in pyvc/runner.py)"""

    def __getattr__(self, attr):
        if attr.startswith("__") and attr.endswith("__"):
            raise AttributeError(attr)
        return lambda *a, **kw: XDropped()

    def __enter__(self):
        return self

    def __exit__(self, *a):
        return False


class XSeq(list):
    """`seq[T]` is list or deque on our side: the native value answers to both interfaces"""

    def popleft(self):
        if not self:
            raise IndexError("pop from an empty deque")
        return self.pop(0)

    def appendleft(self, x):
        self.insert(0, x)

    def extendleft(self, xs):
        for x in xs:
            self.insert(0, x)

    def rotate(self, n=1):
        if self:
            n = n % len(self)
            self[:] = self[-n:] + self[:-n] if n else self[:]


REAL_CLASSES = set()
MACHINES = {}


def _machine(cls):
    for k in cls.__mro__:
        for v in vars(k).values():
            if type(v).__name__ == "MethodicalMachine":
                return k, v
    return None, None


def xset_state(o, cls, idx):
    """put a real Automat machine into the state the model chose (index into the states in source order)"""
    k, mm = _machine(cls)
    names = MACHINES.get(k.__name__) if k is not None else None
    if mm is None or names is None or not isinstance(idx, int) or not 0 <= idx < len(names):
        raise LookupError("machine state")
    from automat._core import Transitioner
    object.__setattr__(o, mm._symbol, Transitioner(mm._automaton, getattr(k, names[idx])))


def xget_state(o, cls):
    k, mm = _machine(cls)
    if mm is None:
        return None
    t = getattr(o, mm._symbol, None)
    st = t._state if t is not None else mm._automaton.initialState
    return st.method.__name__


MODELLED = set()
INPUTS_RECORDED = [False]
_xclasses = {}


def xclass(cls):
    """when the property treats Automat inputs as boundary events (reg.input_as_boundary), so does the native run:
    the inputs of every real object it builds are replaced by recorders that return None"""
    if not INPUTS_RECORDED[0]:
        return cls
    if cls not in _xclasses:
        def recorder(nm):
            def rec(self, *a, **kw):
                XFake.calls.append({"on": cls.__name__, "m": nm, "nkw": len(kw),
                                    "args": [dict(zip(("ok", "v"), xcanon(x))) for x in a]})
                return None
            return rec
        over = {nm: recorder(nm) for k in cls.__mro__ for nm, v in vars(k).items()
                if type(v).__name__ == "MethodicalInput"}
        _xclasses[cls] = type(cls.__name__, (cls,), over) if over else cls
    return _xclasses[cls]


def xlookup(name):
    """a class by bare name: the target's module first, then every loaded module of the repository package"""
    o = NS.get(name)
    if o is not None:
        return o
    for mn, m in sorted(sys.modules.items()):
        if mn.split(".")[0] == "wormhole" and m is not None and isinstance(getattr(m, name, None), type):
            return getattr(m, name)
    return None


def xdecode(v, opaques):
    if isinstance(v, dict):
        if "__bytes__" in v:
            return bytes(v["__bytes__"])
        if "__tuple__" in v:
            items = tuple(xdecode(x, opaques) for x in v["__tuple__"])
            cls = xlookup(v.get("nt")) if v.get("nt") else None
            if v.get("nt") and cls is None:
                raise LookupError("namedtuple class %s not found" % v.get("nt"))
            return cls(*items) if cls is not None else items
        if "__obj__" in v:
            oc = xlookup(v["__obj__"]) if v["__obj__"] in REAL_CLASSES else None
            if isinstance(oc, type):
                o = object.__new__(xclass(oc))
                for k, x in v.get("fields", {}).items():
                    if not k.startswith("__"):
                        object.__setattr__(o, k, xdecode(x, opaques))
                if "__state" in v.get("fields", {}):
                    xset_state(o, oc, v["fields"]["__state"])
                return o
            return XFake(v["__obj__"])
        if "__set__" in v:
            return set(xdecode(x, opaques) for x in v["members"])
        if "__map__" in v:
            return {xdecode(k, opaques): xdecode(x, opaques) for k, x in v["items"]}
        if "__opaque__" in v:
            key = (v["__opaque__"], v.get("id"))
            if key not in opaques:
                opaques[key] = XFake(v["__opaque__"], opaque=True)
            return opaques[key]
        return {k: xdecode(x, opaques) for k, x in v.items()}
    if isinstance(v, list):
        return XSeq(xdecode(x, opaques) for x in v)
    return v


def xcanon(v, depth=0):
    """(ok, canonical form) of a native value; ok is False when the value is outside the compared types"""
    import collections
    if depth > 8:
        return False, None
    if v is None or isinstance(v, (bool, str)):
        return True, v
    if isinstance(v, int):
        return True, int(v)
    if isinstance(v, float):
        return False, {"__float__": v}
    if isinstance(v, (bytes, bytearray)):
        return True, {"__bytes__": list(v)}
    if isinstance(v, tuple):
        rs = [xcanon(x, depth + 1) for x in v]
        return all(r[0] for r in rs), {"__tuple__": [r[1] for r in rs]}
    if isinstance(v, (list, collections.deque)):
        rs = [xcanon(x, depth + 1) for x in v]
        return all(r[0] for r in rs), [r[1] for r in rs]
    if isinstance(v, (set, frozenset)):
        rs = [xcanon(x, depth + 1) for x in v]
        return all(r[0] for r in rs), {"__setm__": sorted((r[1] for r in rs), key=json.dumps)}
    if isinstance(v, dict):
        rs = [(xcanon(k, depth + 1), xcanon(x, depth + 1)) for k, x in v.items()]
        return all(a[0] and b[0] for a, b in rs), {"__dictm__": sorted(([a[1], b[1]] for a, b in rs),
                                                                      key=lambda kv: json.dumps(kv[0]))}
    return False, {"__other__": type(v).__name__}


_WRITE_EVENTS = ("os.remove", "os.rename", "os.mkdir", "os.rmdir", "os.truncate", "os.chmod", "os.chown", "os.link",
                 "os.symlink", "shutil.", "subprocess.Popen", "os.system", "os.exec", "os.fork", "os.forkpty",
                 "os.posix_spawn", "os.spawn", "os.kill", "os.killpg", "socket.connect", "socket.bind", "socket.sendto",
                 "socket.sendmsg", "builtins.input", "os.putenv", "os.unsetenv", "tempfile.", "os.utime", "pty.spawn",
                 "webbrowser.open", "ftplib.", "smtplib.", "urllib.Request", "http.client.connect")
_guard = {"on": False}


def _audit(event, args):
    if not _guard["on"]:
        return
    if event == "open":
        mode, flags = (args[1] if len(args) > 1 else None), (args[2] if len(args) > 2 else 0)
        w = (isinstance(mode, str) and any(ch in mode for ch in "wax+")) or \
            (isinstance(flags, int) and flags & (os.O_WRONLY | os.O_RDWR | os.O_CREAT | os.O_TRUNC | os.O_APPEND))
        if w:
            raise XForbidden("open for writing: %r" % (args[0],))
        return
    if event.startswith(_WRITE_EVENTS):
        raise XForbidden(event)


def xcheck_main(path):
    import inspect
    import signal
    job = json.load(open(path))
    sys.dont_write_bytecode = True
    target = job["target"]
    if job.get("lemma"):
        import textwrap
        mod = importlib.import_module(job["lemma"]["module"][:-3].replace("/", "."))
        ns = dict(vars(mod))
        exec(textwrap.dedent(job["lemma"]["source"]), ns)
        cls, fn = None, ns[target.split(":")[1]]
        NS.update(ns)
    else:
        mod, cls, fn = resolve(target)
        NS.update(vars(mod))
    f = fn.__func__ if isinstance(fn, (staticmethod, classmethod)) else fn
    if not inspect.isfunction(f) and hasattr(f, "method"):
        f = f.method          # automat MethodicalOutput / MethodicalInput wrap the real function
    is_static = isinstance(fn, staticmethod) or cls is None
    sig = inspect.signature(f)
    REAL_CLASSES.update(job.get("real_classes", []))
    MODELLED.update(job.get("modelled", []))
    MACHINES.update(job.get("machines", {}))
    is_input = type(fn).__name__ == "MethodicalInput"
    INPUTS_RECORDED[0] = bool(job.get("inputs_recorded"))
    if cls is not None and not is_static:
        cls = xclass(cls)
    sys.addaudithook(_audit)

    def on_alarm(signum, frame):
        raise XTimeout()
    signal.signal(signal.SIGALRM, on_alarm)

    for w in job["witnesses"]:
        out = {"id": w["id"]}
        try:
            opaques = {}
            XFake.calls = []
            inputs = w["inputs"]
            selfobj = None
            if not is_static:
                sv = inputs.get("self") or {}
                selfobj = object.__new__(cls)
                for k, v in (sv.get("fields", {}) if isinstance(sv, dict) else {}).items():
                    if not k.startswith("__"):
                        object.__setattr__(selfobj, k, xdecode(v, opaques))
                if isinstance(sv, dict) and "__state" in sv.get("fields", {}):
                    xset_state(selfobj, cls, sv["fields"]["__state"])
                if not hasattr(selfobj, "_timing"):
                    try:
                        object.__setattr__(selfobj, "_timing", XDropped())
                    except Exception:
                        pass
            args = {k: xdecode(v, opaques) for k, v in inputs.items() if k in sig.parameters and k != "self"}
        except BaseException as e:       # noqa
            out["skip"] = "cannot-build-input:" + type(e).__name__
            print("XCHECK " + json.dumps(out), flush=True)
            continue
        raised, result = None, None
        _guard["on"] = True
        signal.alarm(5)
        try:
            try:
                if inspect.isgeneratorfunction(f):
                    # a plain generator under contract: run to exhaustion, every yield is recorded like a boundary call
                    g = f(selfobj, **args) if selfobj is not None else f(**args)
                    while True:
                        try:
                            y = next(g)
                        except StopIteration as stop:
                            result = stop.value
                            break
                        XFake.calls.append({"on": "self", "m": "<yield>", "nkw": 0,
                                            "args": [dict(zip(("ok", "v"), xcanon(y)))]})
                elif is_input and selfobj is not None:
                    result = getattr(selfobj, f.__name__)(**args)      # through the real machine
                else:
                    result = f(selfobj, **args) if selfobj is not None else f(**args)
            finally:
                signal.alarm(0)
                _guard["on"] = False
        except XForbidden as e:
            out["skip"] = ("" if str(e).startswith("modelled-") else "forbidden-side-effect:") + str(e).split(":")[0][:40]
        except XTimeout:
            out["skip"] = "timeout"
        except (KeyboardInterrupt, SystemExit) as e:
            raised = e
        except BaseException as e:       # noqa
            raised = e
        if "skip" not in out:
            if inspect.isgenerator(result) or inspect.iscoroutine(result):
                out["skip"] = "returned-generator"
            elif raised is not None:
                out["outcome"] = "raise"
                out["exc"] = type(raised).__name__
                out["mro"] = [k.__name__ for k in type(raised).__mro__] + \
                             [k.__module__ + "." + k.__name__ for k in type(raised).__mro__]
                out["msg"] = str(raised)[:200]
                if isinstance(raised, XForbidden):
                    out = {"id": w["id"], "skip": "forbidden-side-effect"}
            else:
                out["outcome"] = "return"
                out["result_ok"], out["result"] = xcanon(result)
            if "skip" not in out:
                out["fields"] = {}
                for k in job.get("fields", []):
                    if selfobj is not None and hasattr(selfobj, k):
                        ok, cv = xcanon(getattr(selfobj, k))
                        out["fields"][k] = {"ok": ok, "v": cv}
                out["fake_calls"] = list(XFake.calls)[:50]
                try:
                    out["state"] = xget_state(selfobj, cls) if selfobj is not None and cls is not None else None
                except Exception:
                    out["state"] = None
        try:
            line = json.dumps(out)
        except Exception:
            line = json.dumps({"id": w["id"], "skip": "result-not-serialisable"})
        print("XCHECK " + line, flush=True)


if __name__ == "__main__":
    if len(sys.argv) > 2 and sys.argv[1] == "--xcheck":
        try:
            xcheck_main(sys.argv[2])
        except Exception:
            traceback.print_exc()
            sys.exit(1)
        sys.exit(0)
    try:
        main(sys.argv[1])
    except Exception:
        traceback.print_exc()
        print("NOT-REPRODUCED (driver error)")
        sys.exit(1)
