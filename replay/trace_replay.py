"""Native replay for clauses that talk about the calls a method makes: the collaborators
(fields typed obj[...] in the contract) are recorders, the Automat inputs of the object itself
are replaced on the instance by recorders, the real method body runs, and the clause is
evaluated over the recorded trace with the native twins of the trace spec functions."""
import ast
import copy
import importlib
import inspect

import specfuncs
from driver import decode, resolve, NS


class Recorder:
    def __init__(self, cls, trace):
        self._cls, self._trace = cls, trace

    def __getattr__(self, name):
        if name.startswith("__"):
            raise AttributeError(name)

        def call(*a, **kw):
            self._trace.append(("bcall", self._cls, name, list(a)))
            return None
        return call


class Everything(set):
    def __contains__(self, x):
        return True


def run(rep):
    target = rep["target"]
    mod, cls, fn = resolve(target)
    NS.update(vars(mod))
    trace = []
    inputs = rep.get("inputs") or {}
    if "__error__" in inputs or cls is None:
        return False, "no concrete input"
    selfv = inputs.get("self") or {}
    o = object.__new__(cls)
    for k, v in (selfv.get("fields") or {}).items():
        if isinstance(v, dict) and "__obj__" in v:
            object.__setattr__(o, k, Recorder(v["__obj__"], trace))
        elif isinstance(v, dict) and "__set__" in v:
            # a set of strings printed as Store(K(String, False), "a", True)...: recover its members
            import re
            members = set(m.encode().decode("unicode_escape") for m in
                          re.findall(r'"((?:[^"\\\\]|\\\\.)*)",\s*True', v["__set__"]))
            if "K(String, True)" in v["__set__"]:
                members = Everything(members)       # the model's set contains every string
            object.__setattr__(o, k, members)
        else:
            object.__setattr__(o, k, decode(v))
    # collaborators the solver model did not mention
    for k, cn in ((rep.get("replay_spec") or {}).get("collaborators") or {}).items():
        object.__setattr__(o, k, Recorder(cn, trace))
    for name, attr in vars(cls).items():
        if type(attr).__name__ == "MethodicalInput":
            object.__setattr__(o, name, (lambda n: lambda *a: trace.append(("input", n, list(a))))(name))
    f = fn.__func__ if isinstance(fn, (staticmethod, classmethod)) else fn
    if not inspect.isfunction(f) and hasattr(f, "method"):
        f = f.method
    sig = inspect.signature(f)
    args = {k: decode(v) for k, v in inputs.items() if k in sig.parameters and k != "self"}
    old = {"self": copy.copy(o)}
    for k, v in list(vars(o).items()):
        if isinstance(v, (set, dict, list)):
            object.__setattr__(old["self"], k, copy.deepcopy(v))
    old.update({k: copy.deepcopy(v) for k, v in args.items()})
    raised, result = None, None
    try:
        result = f(o, **args)
    except BaseException as e:      # noqa
        raised = e
    msg = [f"calling {target} with {args!r} self={ {k: v for k, v in vars(old['self']).items() if not isinstance(v, Recorder) and not callable(v)}!r}",
           "observed: " + (f"raised {type(raised).__name__}: {raised}" if raised is not None else f"returned {result!r}"),
           "trace: " + repr([(e[0], e[2] if e[0] == 'bcall' else e[1]) for e in trace])]
    env = dict(specfuncs.NATIVE)
    env.update({
        "bcall_names": lambda: [e[2] for e in trace if e[0] == "bcall"],
        "bcall_targets": lambda: [f"{e[1]}.{e[2]}" for e in trace if e[0] == "bcall"],
        "bcalls": lambda *names: sum(1 for e in trace if e[0] == "bcall" and e[2] in names),
        "bcall_arg": lambda name, k, i: ([e for e in trace if e[0] == "bcall" and e[2] == name][k][3][i]
                                         if len([e for e in trace if e[0] == "bcall" and e[2] == name]) > k else None),
        "input_calls": lambda name: sum(1 for e in trace if e[0] == "input" and e[1] == name),
        "input_arg": lambda name, k, i: ([e for e in trace if e[0] == "input" and e[1] == name][k][2][i]
                                         if len([e for e in trace if e[0] == "input" and e[1] == name]) > k else None),
        "trace_order": lambda: [("call:" + e[2]) if e[0] == "bcall" else ("input:" + e[1]) for e in trace],
    })
    env.update(args)
    env["self"], env["result"] = o, result
    # quantifiers over the values that occur in the pre-/post-state and the arguments (finitely many candidates): a
    # candidate that falsifies the body is a genuine witness; if none does the replay is inconclusive
    pool = {"str": {"", "x"}, "int": {0, 1, -1}, "bytes": {b""}}

    def harvest(v, depth=0):
        if depth > 4 or isinstance(v, bool) or isinstance(v, Recorder):
            return
        if isinstance(v, str):
            pool["str"].add(v)
        elif isinstance(v, int):
            pool["int"].update((v, v + 1, v - 1))
        elif isinstance(v, bytes):
            pool["bytes"].add(v)
        elif isinstance(v, dict):
            for k_, x_ in list(v.items())[:50]:
                harvest(k_, depth + 1)
                harvest(x_, depth + 1)
        elif isinstance(v, (list, tuple, set, frozenset)) or type(v).__name__ == "deque":
            for x_ in list(v)[:50]:
                harvest(x_, depth + 1)
        elif hasattr(v, "__dict__"):
            for x_ in list(vars(v).values())[:50]:
                harvest(x_, depth + 1)

    for v_ in list(args.values()) + [o, result] + list(old.values()):
        try:
            harvest(v_)
        except Exception:
            pass

    def _cands(f, types):
        import inspect as _insp
        import itertools as _it
        n = len(_insp.signature(f).parameters)
        tys = list(types) + ["int"] * (n - len(types))
        doms = [sorted(pool.get(t, pool["int"]), key=repr)[:40] for t in tys[:n]]
        return _it.islice(_it.product(*doms), 20000)

    env["forall"] = lambda f, *types: all(f(*c) for c in _cands(f, types))
    env["exists"] = lambda f, *types: any(f(*c) for c in _cands(f, types))
    oldenv = dict(env)
    oldenv.update(old)
    kind, clause = rep.get("kind"), rep.get("clause")
    if kind == "no-exception":
        want = rep.get("exc")
        ok = raised is not None and any(c.__name__ == want for c in type(raised).__mro__)
        return ok, "\n".join(msg + [f"required: no {want}"])
    if kind == "frame" and ".frame." in str(rep.get("obligation", "")):
        fld = str(rep["obligation"]).split(".frame.")[-1].split("__")[0]
        if hasattr(o, fld) and hasattr(old["self"], fld):
            same = getattr(o, fld) == getattr(old["self"], fld)
            return (not same), "\n".join(msg + [f"required: self.{fld} unchanged; before {getattr(old['self'], fld)!r}, "
                                                f"after {getattr(o, fld)!r}"])
    if not isinstance(clause, str):
        return False, "\n".join(msg + ["clause not replayable"])

    class Rew(ast.NodeTransformer):
        def visit_Call(self, node):
            if isinstance(node.func, ast.Name) and node.func.id == "old":
                val = eval(compile(ast.Expression(node.args[0]), "<old>", "eval"), oldenv)
                name = f"__old{len(env)}"
                env[name] = val
                return ast.copy_location(ast.Name(name, ast.Load()), node)
            if isinstance(node.func, ast.Name) and node.func.id in ("implies", "imp"):
                a, b = self.visit(node.args[0]), self.visit(node.args[1])
                return ast.copy_location(ast.BoolOp(ast.Or(), [ast.UnaryOp(ast.Not(), a), b]), node)
            return self.generic_visit(node)

    try:
        if kind == "ensures":
            if raised is not None:
                return False, "\n".join(msg + ["function raised; the clause is about normal return"])
            tree = ast.fix_missing_locations(Rew().visit(ast.parse(clause.strip(), mode="eval")))
            val = eval(compile(tree, "<clause>", "eval"), env)
            return (not val), "\n".join(msg + [f"required: {clause} -> {val!r}"])
        if kind == "ensures-raise":
            if raised is None:
                return False, "\n".join(msg)
            tree = ast.fix_missing_locations(Rew().visit(ast.parse(clause.strip(), mode="eval")))
            val = eval(compile(tree, "<clause>", "eval"), env)
            return (not val), "\n".join(msg + [f"required after the exception: {clause} -> {val!r}"])
        if kind == "raises-cond":
            if raised is None:
                return False, "\n".join(msg)
            val = eval(clause.strip(), oldenv)
            return (not val), "\n".join(msg + [f"raised although: {clause} -> {val!r}"])
        if kind == "raises-iff":
            val = eval(clause.strip(), oldenv)
            return bool(val and raised is None), "\n".join(msg + [f"must raise when: {clause} -> {val!r}; raised={raised is not None}"])
    except Exception as e:        # noqa
        return False, "\n".join(msg + [f"clause not evaluable natively: {e!r}"])
    return False, "\n".join(msg + [f"no native replay for kind {kind!r}"])
