"""Native replay for ensures / raises clauses of plain functions whose specification uses
uninterpreted library functions (NFC, HKDF, SHA-256 ...): the solver's counterexample only says
"some input on which the two sides differ exists", its concrete strings are arbitrary.  The
driver replays the solver's input first and then the same call with each argument replaced by
a few canonical probe values of the same type; REPRODUCED as soon as the real function violates
the clause on one of them (the probes lie inside every precondition used by these contracts:
lengths 16/32, arbitrary str / bytes)."""
import contextlib
import io
import itertools
import json
import os
import tempfile

PROBES = {
    str: ["e\u0301-code", "\u212bngstro\u0308m", "7-crossover-clockwork"],
    bytes: [bytes(range(32)), b"purpose", b"\x01" * 24 + b"x" * 20],
    int: [32, 16],
}


def _kind(v):
    if isinstance(v, str):
        return str
    if isinstance(v, dict) and "__bytes__" in v:
        return bytes
    if isinstance(v, int) and not isinstance(v, bool):
        return int
    return None


def _enc(x):
    return {"__bytes__": list(x)} if isinstance(x, bytes) else x


def _variants(inputs):
    flat = []          # (path, kind)
    for k, v in inputs.items():
        if k == "self" and isinstance(v, dict):
            for fk, fv in (v.get("fields") or {}).items():
                if _kind(fv):
                    flat.append((("self", fk), _kind(fv)))
        elif _kind(v):
            flat.append(((k,), _kind(v)))
    yield inputs
    pools = [[None] + PROBES[kind] for _, kind in flat]
    for n, combo in enumerate(itertools.product(*pools)):
        if n == 0:
            continue
        if n > 400:
            return
        cand = json.loads(json.dumps(inputs))
        for (path, _), val in zip(flat, combo):
            if val is None:
                continue
            if path[0] == "self":
                cand["self"]["fields"][path[1]] = _enc(val)
            else:
                cand[path[0]] = _enc(val)
        yield cand


def run(rep):
    import driver
    inputs = rep.get("inputs") or {}
    if "__error__" in inputs:
        inputs = {}
    last = ""
    for cand in _variants(inputs):
        r2 = dict(rep)
        r2["inputs"], r2["replay_spec"], r2["extra"] = cand, None, None
        with tempfile.NamedTemporaryFile("w", suffix=".json", delete=False) as f:
            json.dump(r2, f)
        buf = io.StringIO()
        try:
            with contextlib.redirect_stdout(buf):
                driver.main(f.name)
        except BaseException as e:     # noqa
            buf.write(f"driver error {e!r}\n")
        finally:
            os.unlink(f.name)
        out = buf.getvalue()
        last = out
        if any(l.strip() == "REPRODUCED" for l in out.splitlines()):
            return True, out.replace("REPRODUCED", "").rstrip()
    return False, last.replace("NOT-REPRODUCED", "").rstrip()
