"""Native (CPython) definitions of the spec functions used in contract clauses, so a
clause can be evaluated on the real function's concrete result during replay."""
import re
import struct
import unicodedata


def is_digits(s):
    return isinstance(s, str) and len(s) > 0 and all(unicodedata.category(c) == "Nd" for c in s)


def be4_value(b):
    return struct.unpack(">L", b)[0]


def be4(v):
    return struct.pack(">L", v)


def implies(a, b):
    return (not a) or b


NATIVE = {"is_digits": is_digits, "be4_value": be4_value, "be4": be4, "implies": implies}


# ---- C20
def _is_int(x):
    return isinstance(x, int) and not isinstance(x, bool)


def _is_num(x):
    return isinstance(x, (int, float)) and not isinstance(x, bool)


def valid_hint(h):
    return type(h).__name__ in ("DirectTCPV1Hint", "TorTCPV1Hint") and isinstance(h.hostname, str) \
        and _is_int(h.port) and _is_num(h.priority)


def valid_any_hint(h):
    if type(h).__name__ == "RelayV1Hint":
        return all(valid_hint(x) for x in h.hints)
    return valid_hint(h)


def all_valid(seq):
    return all(valid_hint(x) for x in seq)


def all_valid_any(seq):
    return all(valid_any_hint(x) for x in seq)


def all_relays_valid(st):
    return all(all_valid(r.hints) for r in st)


def wellformed_tcp(hint):
    return isinstance(hint, dict) and hint.get("type") in ("direct-tcp-v1", "tor-tcp-v1") \
        and isinstance(hint.get("hostname"), str) and _is_int(hint.get("port")) \
        and ("priority" not in hint or _is_num(hint["priority"]))


def hint_matches(r, hint):
    if r is None:
        return True
    want = {"DirectTCPV1Hint": "direct-tcp-v1", "TorTCPV1Hint": "tor-tcp-v1"}.get(type(r).__name__)
    return want is not None and isinstance(hint, dict) and hint.get("type") == want and r.hostname == hint.get("hostname") \
        and r.port == hint.get("port") and r.priority == hint.get("priority", 0.0)


NATIVE.update({"valid_hint": valid_hint, "valid_any_hint": valid_any_hint, "all_valid": all_valid,
               "all_valid_any": all_valid_any, "all_relays_valid": all_relays_valid,
               "wellformed_tcp": wellformed_tcp, "hint_matches": hint_matches})


# ---- C05 (POSIX path theory: the uninterpreted symbols of props/c05.py are CPython's posixpath here)
import posixpath  # noqa: E402


def good_name(b):
    return isinstance(b, str) and b != "" and "/" not in b and b not in (".", "..")


def within(p, d):
    return p == d or p == d + ".tmp" or below(p, d)


def below(p, d):
    return p.startswith(d + "/") and len(p) > len(d) + 1


def jfield(d, *keys):
    for k in keys:
        d = d[k]
    return d


NATIVE.update({"pjoin": posixpath.join, "abspath": posixpath.abspath, "basename": posixpath.basename,
               "good_name": good_name, "within": within, "below": below, "jfield": jfield,
               "is_jstr": lambda x: isinstance(x, str), "jstr": lambda x: x,
               "imp": lambda a, b: (not a) or bool(b), "falsy": lambda a: not a, "truthy": lambda a: bool(a)})


# ---- C04
import binascii  # noqa: E402
import hashlib  # noqa: E402
import json  # noqa: E402

NATIVE.update({"sha256_digest": lambda b: hashlib.sha256(b).digest(),
               "hexstr": lambda b: binascii.hexlify(b).decode("ascii"),
               "json_bytes": lambda d: json.dumps(d).encode("utf-8"),
               "jhas": lambda d, k: isinstance(d, dict) and k in d, "jget": lambda d, k: d[k],
               "reached": lambda n, e: e is not None and n >= e})

# ---- C06 / C07 (transit)
def be_value(b):
    return int.from_bytes(b, "big")


def be_enc(v, n):
    return int(v).to_bytes(n, "big")


def min2(a, b):
    return a if a < b else b


def exc_class(x):
    return type(x).__name__


def _hkdf(key, length, info):
    from wormhole.util import HKDF
    return HKDF(key, length, CTXinfo=info)


def hexl(b):
    import binascii
    return binascii.hexlify(b)


def sender_hs(key):
    return b"transit sender " + hexl(_hkdf(key, 32, b"transit_sender")) + b" ready\n\n"


def receiver_hs(key):
    return b"transit receiver " + hexl(_hkdf(key, 32, b"transit_receiver")) + b" ready\n\n"
# ---- C10 / C15 (props/dilq.py); sequences may be deques or lists, sets are Python sets
def seqnum(r):
    return getattr(r, "seqnum", -1)


def contig(q, n):
    q = list(q)
    return all(seqnum(r) == n - len(q) + i for i, r in enumerate(q))


def suffix_of(u, q):
    u, q = list(u), list(q)
    return len(u) <= len(q) and q[len(q) - len(u):] == u


def no_records(s):
    return len(s) == 0


def new_part(q, q0):
    return list(q)[len(q0):]


def all_above(q, x):
    return all(seqnum(r) > x for r in q)


def dropped_acked(oldq, newq, x):
    oldq, newq = list(oldq), list(newq)
    d = len(oldq) - len(newq)
    return d >= 0 and oldq[d:] == newq and all(seqnum(r) <= x for r in oldq[:d])


def conn_sent(ob):
    c = ob._connection
    return list(c.sent) if c is not None else []


def conn_same(ob, oldob):
    a, b = ob._connection, oldob._connection
    return (a is None and b is None) or (a is not None and b is not None and getattr(a, "ident", a) == getattr(b, "ident", b))


def conn_is(ob, c):
    return ob._connection is not None and getattr(ob._connection, "ident", None) == getattr(c, "ident", c)


def reading_paused(ob):
    return bool(ob._connection is not None and ob._connection.paused_reading)


def index_of(s, x):
    s = list(s)
    return s.index(x) if x in s else -1


def partition(allp, P, U):
    return not (set(P) & set(U)) and (set(P) | set(U)) == set(allp)


def distinct(s):
    s = list(s)
    return len(set(s)) == len(s)


def paused_first(allp, P, U):
    return all(index_of(allp, y) < index_of(allp, x) for x in U for y in P)


def no_member(S):
    return len(S) == 0


def registered(m, allp):
    vals = list(m.values())
    return all(v in list(allp) for v in vals) and len(set(vals)) == len(vals)


def same_set(A, B):
    return set(A) == set(B)


def set_plus(A, B, x):
    return set(A) == set(B) | {x}


def set_minus(A, B, x):
    return set(A) == set(B) - {x}


def set_union_is(A, B, C):
    return set(A) == set(B) | set(C)


def removed_at(new, old, x):
    old = list(old)
    if x not in old:
        return False
    k = old.index(x)
    return list(new) == old[:k] + old[k + 1:]


def none_before(allp, n, S):
    return all(p not in S for p in list(allp)[:n])


def moved_to_paused(P, U, P0, U0):
    return set(P) | set(U) == set(P0) | set(U0) and set(P0) <= set(P) and set(U) <= set(U0)


def is_pull(p):
    return type(p).__name__ == "PullToPush"


def ite(c, a, b):
    return a if c else b


NATIVE.update({"be_value": be_value, "be_enc": be_enc, "min2": min2, "exc_class": exc_class, "hkdf": _hkdf, "hexl": hexl,
               "sender_hs": sender_hs, "receiver_hs": receiver_hs, "ite": ite})
NATIVE.update({k: v for k, v in dict(
    seqnum=seqnum, contig=contig, suffix_of=suffix_of, no_records=no_records, new_part=new_part, all_above=all_above,
    dropped_acked=dropped_acked, conn_sent=conn_sent, conn_same=conn_same, conn_is=conn_is, reading_paused=reading_paused,
    index_of=index_of, partition=partition, distinct=distinct, paused_first=paused_first, no_member=no_member,
    registered=registered, same_set=same_set, set_plus=set_plus, set_minus=set_minus, set_union_is=set_union_is,
    removed_at=removed_at, none_before=none_before, moved_to_paused=moved_to_paused, is_pull=is_pull, ite=ite).items()})
# ---- C01 / C02 (key derivation, sealing, codecs): defined from the libraries, never from the repository
import binascii as _binascii
import hashlib as _hashlib
import json as _json


def nfc(s):
    return unicodedata.normalize("NFC", s)


def utf8(s):
    return s.encode("utf-8")


def is_ascii(s):
    return all((c if isinstance(c, int) else ord(c)) < 128 for c in s)


def ascii_bytes(s):
    return s.encode("ascii") if isinstance(s, str) else bytes(s)


def sha256_of(b):
    return _hashlib.sha256(b).digest()


def hkdf4(k, n, salt, info):
    from cryptography.hazmat.primitives import hashes
    from cryptography.hazmat.primitives.kdf.hkdf import HKDF
    return HKDF(hashes.SHA256(), n, salt, info).derive(k)


def hkdf(k, n, info):
    return hkdf4(k, n, None, info)


def phase_purpose(side, phase):
    return b"wormhole:phase:" + sha256_of(ascii_bytes(side)) + sha256_of(ascii_bytes(phase))


def phase_key(k, side, phase):
    return hkdf(k, 32, phase_purpose(side, phase))


def _box(k):
    from nacl.secret import SecretBox
    return SecretBox(k)


def sbox_valid(k, c):
    try:
        _box(k).decrypt(c)
        return True
    except Exception:
        return False


def sbox_open(k, c):
    return _box(k).decrypt(c)


def sbox_encrypt(k, n, p):
    return bytes(_box(k).encrypt(p, n))


def sealed(c, k, p):
    return len(c) == len(p) + 40 and bytes(_box(k).encrypt(p, bytes(c[:24]))) == bytes(c)


def json_bytes(d):
    return _json.dumps(d).encode("utf-8")


def json_parses(b):
    try:
        _json.loads(b.decode("utf-8"))
        return True
    except Exception:
        return False


def json_of(b):
    try:
        return _json.loads(b.decode("utf-8"))
    except Exception:
        return None


def is_hex(s):
    try:
        _binascii.unhexlify(s)
        return True
    except Exception:
        return False


def unhex(s):
    try:
        return _binascii.unhexlify(s)
    except Exception:
        return None


NATIVE.update({
    "nfc": nfc, "utf8": utf8, "is_ascii": is_ascii, "ascii": ascii_bytes, "json_str": lambda j: j, "sha256_of": sha256_of,
    "hkdf": hkdf, "hkdf4": hkdf4, "phase_purpose": phase_purpose, "phase_key": phase_key, "sbox_valid": sbox_valid,
    "sbox_open": sbox_open, "sbox_encrypt": sbox_encrypt, "sealed": sealed, "json_bytes": json_bytes,
    "json_parses": json_parses, "json_of": json_of, "is_hex": is_hex, "unhex": unhex,
    "hex_of": lambda b: _binascii.hexlify(b).decode("ascii"),
    "json_has": lambda j, k: isinstance(j, dict) and k in j,
    "json_get": lambda j, k: j.get(k) if isinstance(j, dict) else None,
    "is_numeric_phase": lambda s: re.search(r"^\d+$", s) is not None,
    "is_dilate_phase": lambda s: re.search(r"^dilate-(\d+)$", s) is not None,
    "decimal_value": lambda s: int(s),
    "imp": lambda a, b: (not a) or b,
})


# ---- C19: native twin of props/c19.py completion_ok (same definition, over the real word tables)
def completion_ok(c, prefix, num_words):
    from wormhole import _wordlist as wl
    cnt = prefix.count("-")
    li = prefix.rfind("-")
    head = "" if li < 0 else prefix[:li + 1]
    last = prefix if li < 0 else prefix[li + 1:]
    dash = "-" if cnt + 1 < num_words else ""
    words = wl.odd_words_lowercase if cnt % 2 == 0 else wl.even_words_lowercase
    return c.startswith(prefix) and any(w.startswith(last) and c == head + w + dash for w in words)


NATIVE.update({"completion_ok": completion_ok})
