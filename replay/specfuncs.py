"""Native (CPython) definitions of the spec functions used in contract clauses, so a
clause can be evaluated on the real function's concrete result during replay."""
import re
import struct
import unicodedata


def is_digits(s):
    return isinstance(s, str) and len(s) > 0 and all(unicodedata.category(c) == "Nd" for c in s)


def be4_value(b):
    return struct.unpack(">L", b)[0]


def be4(v):
    return struct.pack(">L", v)


def implies(a, b):
    return (not a) or b


NATIVE = {"is_digits": is_digits, "be4_value": be4_value, "be4": be4, "implies": implies}


# ---- C20
def _is_int(x):
    return isinstance(x, int) and not isinstance(x, bool)


def _is_num(x):
    return isinstance(x, (int, float)) and not isinstance(x, bool)


def valid_hint(h):
    return type(h).__name__ in ("DirectTCPV1Hint", "TorTCPV1Hint") and isinstance(h.hostname, str) \
        and _is_int(h.port) and _is_num(h.priority)


def valid_any_hint(h):
    if type(h).__name__ == "RelayV1Hint":
        return all(valid_hint(x) for x in h.hints)
    return valid_hint(h)


def all_valid(seq):
    return all(valid_hint(x) for x in seq)


def all_valid_any(seq):
    return all(valid_any_hint(x) for x in seq)


def all_relays_valid(st):
    return all(all_valid(r.hints) for r in st)


def wellformed_tcp(hint):
    return isinstance(hint, dict) and hint.get("type") in ("direct-tcp-v1", "tor-tcp-v1") \
        and isinstance(hint.get("hostname"), str) and _is_int(hint.get("port")) \
        and ("priority" not in hint or _is_num(hint["priority"]))


def hint_matches(r, hint):
    if r is None:
        return True
    want = {"DirectTCPV1Hint": "direct-tcp-v1", "TorTCPV1Hint": "tor-tcp-v1"}.get(type(r).__name__)
    return want is not None and isinstance(hint, dict) and hint.get("type") == want and r.hostname == hint.get("hostname") \
        and r.port == hint.get("port") and r.priority == hint.get("priority", 0.0)


NATIVE.update({"valid_hint": valid_hint, "valid_any_hint": valid_any_hint, "all_valid": all_valid,
               "all_valid_any": all_valid_any, "all_relays_valid": all_relays_valid,
               "wellformed_tcp": wellformed_tcp, "hint_matches": hint_matches})


# ---- C05 (POSIX path theory: the uninterpreted symbols of props/c05.py are CPython's posixpath here)
import posixpath  # noqa: E402


def good_name(b):
    return isinstance(b, str) and b != "" and "/" not in b and b not in (".", "..")


def within(p, d):
    return p == d or p == d + ".tmp" or below(p, d)


def below(p, d):
    return p.startswith(d + "/") and len(p) > len(d) + 1


def jfield(d, *keys):
    for k in keys:
        d = d[k]
    return d


NATIVE.update({"pjoin": posixpath.join, "abspath": posixpath.abspath, "basename": posixpath.basename,
               "good_name": good_name, "within": within, "below": below, "jfield": jfield,
               "is_jstr": lambda x: isinstance(x, str), "jstr": lambda x: x,
               "imp": lambda a, b: (not a) or bool(b), "falsy": lambda a: not a, "truthy": lambda a: bool(a)})


# ---- C04
import binascii  # noqa: E402
import hashlib  # noqa: E402
import json  # noqa: E402

NATIVE.update({"sha256_digest": lambda b: hashlib.sha256(b).digest(),
               "hexstr": lambda b: binascii.hexlify(b).decode("ascii"),
               "json_bytes": lambda d: json.dumps(d).encode("utf-8"),
               "jhas": lambda d, k: isinstance(d, dict) and k in d, "jget": lambda d, k: d[k],
               "reached": lambda n, e: e is not None and n >= e})

# ---- C06 / C07 (transit)
def be_value(b):
    return int.from_bytes(b, "big")


def be_enc(v, n):
    return int(v).to_bytes(n, "big")


def min2(a, b):
    return a if a < b else b


def exc_class(x):
    return type(x).__name__


def _hkdf(key, length, info):
    from wormhole.util import HKDF
    return HKDF(key, length, CTXinfo=info)


def hexl(b):
    import binascii
    return binascii.hexlify(b)


def sender_hs(key):
    return b"transit sender " + hexl(_hkdf(key, 32, b"transit_sender")) + b" ready\n\n"


def receiver_hs(key):
    return b"transit receiver " + hexl(_hkdf(key, 32, b"transit_receiver")) + b" ready\n\n"


def ite(c, a, b):
    return a if c else b


NATIVE.update({"be_value": be_value, "be_enc": be_enc, "min2": min2, "exc_class": exc_class, "hkdf": _hkdf, "hexl": hexl,
               "sender_hs": sender_hs, "receiver_hs": receiver_hs, "ite": ite})
