"""Native (CPython) definitions of the spec functions used in contract clauses, so a
clause can be evaluated on the real function's concrete result during replay."""
import re
import struct
import unicodedata


def is_digits(s):
    return isinstance(s, str) and len(s) > 0 and all(unicodedata.category(c) == "Nd" for c in s)


def be4_value(b):
    return struct.unpack(">L", b)[0]


def be4(v):
    return struct.pack(">L", v)


def implies(a, b):
    return (not a) or b


NATIVE = {"is_digits": is_digits, "be4_value": be4_value, "be4": be4, "implies": implies}


# ---- C20
def _is_int(x):
    return isinstance(x, int) and not isinstance(x, bool)


def _is_num(x):
    return isinstance(x, (int, float)) and not isinstance(x, bool)


def valid_hint(h):
    return type(h).__name__ in ("DirectTCPV1Hint", "TorTCPV1Hint") and isinstance(h.hostname, str) \
        and _is_int(h.port) and _is_num(h.priority)


def valid_any_hint(h):
    if type(h).__name__ == "RelayV1Hint":
        return all(valid_hint(x) for x in h.hints)
    return valid_hint(h)


def all_valid(seq):
    return all(valid_hint(x) for x in seq)


def all_valid_any(seq):
    return all(valid_any_hint(x) for x in seq)


def all_relays_valid(st):
    return all(all_valid(r.hints) for r in st)


def wellformed_tcp(hint):
    return isinstance(hint, dict) and hint.get("type") in ("direct-tcp-v1", "tor-tcp-v1") \
        and isinstance(hint.get("hostname"), str) and _is_int(hint.get("port")) \
        and ("priority" not in hint or _is_num(hint["priority"]))


def hint_matches(r, hint):
    if r is None:
        return True
    want = {"DirectTCPV1Hint": "direct-tcp-v1", "TorTCPV1Hint": "tor-tcp-v1"}.get(type(r).__name__)
    return want is not None and isinstance(hint, dict) and hint.get("type") == want and r.hostname == hint.get("hostname") \
        and r.port == hint.get("port") and r.priority == hint.get("priority", 0.0)


NATIVE.update({"valid_hint": valid_hint, "valid_any_hint": valid_any_hint, "all_valid": all_valid,
               "all_valid_any": all_valid_any, "all_relays_valid": all_relays_valid,
               "wellformed_tcp": wellformed_tcp, "hint_matches": hint_matches})


# ---- C01 / C02 (key derivation, sealing, codecs): defined from the libraries, never from the repository
import binascii as _binascii
import hashlib as _hashlib
import json as _json


def nfc(s):
    return unicodedata.normalize("NFC", s)


def utf8(s):
    return s.encode("utf-8")


def is_ascii(s):
    return all((c if isinstance(c, int) else ord(c)) < 128 for c in s)


def ascii_bytes(s):
    return s.encode("ascii") if isinstance(s, str) else bytes(s)


def sha256_of(b):
    return _hashlib.sha256(b).digest()


def hkdf4(k, n, salt, info):
    from cryptography.hazmat.primitives import hashes
    from cryptography.hazmat.primitives.kdf.hkdf import HKDF
    return HKDF(hashes.SHA256(), n, salt, info).derive(k)


def hkdf(k, n, info):
    return hkdf4(k, n, None, info)


def phase_purpose(side, phase):
    return b"wormhole:phase:" + sha256_of(ascii_bytes(side)) + sha256_of(ascii_bytes(phase))


def phase_key(k, side, phase):
    return hkdf(k, 32, phase_purpose(side, phase))


def _box(k):
    from nacl.secret import SecretBox
    return SecretBox(k)


def sbox_valid(k, c):
    try:
        _box(k).decrypt(c)
        return True
    except Exception:
        return False


def sbox_open(k, c):
    return _box(k).decrypt(c)


def sbox_encrypt(k, n, p):
    return bytes(_box(k).encrypt(p, n))


def sealed(c, k, p):
    return len(c) == len(p) + 40 and bytes(_box(k).encrypt(p, bytes(c[:24]))) == bytes(c)


def json_bytes(d):
    return _json.dumps(d).encode("utf-8")


def json_parses(b):
    try:
        _json.loads(b.decode("utf-8"))
        return True
    except Exception:
        return False


def json_of(b):
    try:
        return _json.loads(b.decode("utf-8"))
    except Exception:
        return None


def is_hex(s):
    try:
        _binascii.unhexlify(s)
        return True
    except Exception:
        return False


def unhex(s):
    try:
        return _binascii.unhexlify(s)
    except Exception:
        return None


NATIVE.update({
    "nfc": nfc, "utf8": utf8, "is_ascii": is_ascii, "ascii": ascii_bytes, "json_str": lambda j: j, "sha256_of": sha256_of,
    "hkdf": hkdf, "hkdf4": hkdf4, "phase_purpose": phase_purpose, "phase_key": phase_key, "sbox_valid": sbox_valid,
    "sbox_open": sbox_open, "sbox_encrypt": sbox_encrypt, "sealed": sealed, "json_bytes": json_bytes,
    "json_parses": json_parses, "json_of": json_of, "is_hex": is_hex, "unhex": unhex,
    "hex_of": lambda b: _binascii.hexlify(b).decode("ascii"),
    "json_has": lambda j, k: isinstance(j, dict) and k in j,
    "json_get": lambda j, k: j.get(k) if isinstance(j, dict) else None,
    "is_numeric_phase": lambda s: re.search(r"^\d+$", s) is not None,
    "is_dilate_phase": lambda s: re.search(r"^dilate-(\d+)$", s) is not None,
    "decimal_value": lambda s: int(s),
    "imp": lambda a, b: (not a) or b,
})
