"""Native (CPython) definitions of the spec functions used in contract clauses, so a
clause can be evaluated on the real function's concrete result during replay."""
import re
import struct
import unicodedata


def is_digits(s):
    return isinstance(s, str) and len(s) > 0 and all(unicodedata.category(c) == "Nd" for c in s)


def be4_value(b):
    return struct.unpack(">L", b)[0]


def be4(v):
    return struct.pack(">L", v)


def implies(a, b):
    return (not a) or b


NATIVE = {"is_digits": is_digits, "be4_value": be4_value, "be4": be4, "implies": implies}
