"""Native replay for C18 obligations of kind no-exception on the observers and on
_DeferredWormhole: the solver's model does not carry nested object state, so the driver tries
the few canonical states of the real objects (nothing fired / everything fired / closed) and
reports REPRODUCED when the real method raises the exception the contract forbids."""
import inspect


def _states():
    from twisted.internet.task import Clock
    from twisted.python.failure import Failure
    from wormhole.eventual import EventualQueue
    from wormhole.observer import OneShotObserver, SequenceObserver
    from wormhole.wormhole import _DeferredWormhole

    class Boss:
        def __getattr__(self, name):
            return lambda *a, **kw: None

    def wormhole(stage):
        w = _DeferredWormhole(None, EventualQueue(Clock()))
        w._set_boss(Boss())
        if stage >= 1:
            w.get_code(), w.get_message()
        if stage >= 2:
            for m, a in (("got_welcome", {}), ("got_code", "1-a"), ("got_key", b"k"), ("got_verifier", b"v"),
                         ("got_versions", {}), ("received", b"m")):
                getattr(w, m)(a)
        if stage >= 3:
            w.closed("happy")
        return w

    def oneshot(stage):
        o = OneShotObserver(EventualQueue(Clock()))
        if stage >= 1:
            o.when_fired()
        if stage == 2:
            o.fire("x")
        if stage == 3:
            o.error(Failure(ValueError("e")))
        return o

    def sequence(stage):
        o = SequenceObserver(EventualQueue(Clock()))
        if stage >= 1:
            o.when_next_event()
        if stage == 2:
            o.fire("a"), o.fire("b")
        if stage == 3:
            o.fire(Failure(ValueError("e")))
        return o

    return {"_DeferredWormhole": wormhole, "OneShotObserver": oneshot, "SequenceObserver": sequence}, Failure


def run(rep):
    if rep.get("kind") != "no-exception":
        return False, "only obligations of kind no-exception are replayed natively for C18"
    want = rep.get("exc")
    clsname, meth = rep["target"].split(":")[1].split(".")
    makers, Failure = _states()
    if clsname not in makers:
        return False, f"no native states for {clsname}"
    log = []
    for stage in range(4):
        for arg in ("x", ValueError("boom"), Failure(ValueError("f"))):
            o = makers[clsname](stage)
            f = getattr(o, meth)
            n = len([p for p in inspect.signature(f).parameters.values() if p.default is p.empty])
            try:
                f(*([arg] * n))
            except BaseException as e:     # noqa
                if any(c.__name__ == want for c in type(e).__mro__):
                    return True, f"{clsname} in canonical state {stage}: {meth}({arg!r}) raised {type(e).__name__}: {e}"
                log.append(f"state {stage}: {type(e).__name__}")
            if n == 0:
                break
    return False, f"{clsname}.{meth} did not raise {want} in the canonical states ({log})"
