"""Native replay for the C10/C15 contracts on Outbound / Inbound / Manager methods.

Builds the real object (object.__new__ + the fields of the counterexample), with recording fakes for
the boundary objects (connection, transport, producers, subchannels), calls the real method and
evaluates the failed clause with the native spec functions.  The fakes never call back (the
counterexample's re-entrancy choices are not replayed): best effort, as every replay.
"""
import ast
import collections
import copy
import re

import specfuncs

TRACE = []


class Fake:
    def __init__(self, kind, ident):
        self.kind, self.ident = kind, ident

    def __repr__(self):
        return f"<{self.kind} {self.ident}>"

    def __deepcopy__(self, memo):
        return self          # identity matters (producers are compared by identity)

    def __getattr__(self, name):
        if name.startswith("__"):
            raise AttributeError(name)

        def call(*a, **kw):
            TRACE.append((self.kind, name, (self,) + tuple(a)) if self.kind == "Producer" else (self.kind, name, tuple(a)))
        return call


class FakeConn:
    def __init__(self, ident, sent=(), paused_reading=False):
        self.ident = ident
        self.sent = list(sent)
        self.paused_reading = paused_reading
        self.transport = Fake("Transport", ident)

    def __deepcopy__(self, memo):
        c = FakeConn(self.ident, list(self.sent), self.paused_reading)
        return c

    def send_record(self, r):
        if hasattr(r, "seqnum"):
            self.sent.append(r)
        TRACE.append(("Conn", "send_record", (r,)))

    def pauseProducing(self):
        self.paused_reading = True
        TRACE.append(("Conn", "pauseProducing", ()))

    def resumeProducing(self):
        self.paused_reading = False
        TRACE.append(("Conn", "resumeProducing", ()))


_fakes = {}


def fake(kind, ident):
    return _fakes.setdefault((kind, ident), Fake(kind, ident))


def record(v, cm):
    if isinstance(v, dict) and "__tuple__" in v:
        cls = getattr(cm, v.get("nt") or "", None)
        items = [bytes(x["__bytes__"]) if isinstance(x, dict) and "__bytes__" in x else x for x in v["__tuple__"]]
        return cls(*items) if cls else tuple(items)
    return v


def parse_set(txt, kind):
    """members of a z3 model array printed as Store(K(..., False), a, True) ...; best effort"""
    out, dropped = [], set()
    for m in re.finditer(r"(O_%s!val!\d+),\s*(True|False)\)" % kind, txt or ""):
        (out.append(m.group(1)) if m.group(2) == "True" else dropped.add(m.group(1)))
    return {fake(kind, x) for x in out if x not in dropped}


def build_conn(v, cm, ident):
    if v is None:
        return None
    f = v.get("fields", {})
    return FakeConn(ident, [record(x, cm) for x in f.get("sent", [])], bool(f.get("paused_reading", False)))


def build(cls, fields, cm, ident="self"):
    o = object.__new__(cls)
    for k, v in fields.items():
        if k in ("_outbound_queue", "_queued_unsent"):
            v = collections.deque(record(x, cm) for x in v)
        elif k == "_all_producers":
            v = collections.deque(fake("Producer", x["id"]) for x in v)
        elif k in ("_paused_producers", "_unpaused_producers"):
            v = parse_set(v.get("__set__"), "Producer")
        elif k == "_paused_subchannels":
            v = parse_set(v.get("__set__"), "SubChannel")
        elif k in ("_subchannel_producers", "_open_subchannels"):
            v = {}
        elif k == "_connection":
            v = build_conn(v, cm, "conn-of-" + ident)
        elif isinstance(v, dict) and "__obj__" in v:
            v = fake(v["__obj__"], k)          # a collaborator object (cooperator, manager ...): a recording stand-in
        object.__setattr__(o, k, v)
    return o


class View:
    """read-only view of an object for clause evaluation: deques read as lists"""

    def __init__(self, o):
        object.__setattr__(self, "_o", o)

    def __getattr__(self, name):
        v = getattr(object.__getattribute__(self, "_o"), name)
        if isinstance(v, collections.deque):
            return list(v)
        if v is not None and type(v).__name__ in ("Outbound", "Inbound"):
            return View(v)
        return v


def bcalls(*names):
    return sum(1 for e in TRACE if e[1] in names)


def bcall_arg(name, k, i):
    evs = [e for e in TRACE if e[1] == name]
    return evs[k][2][i] if k < len(evs) and i < len(evs[k][2]) else None


def bcall_names():
    return [e[1] for e in TRACE]


def replay(rep):
    from wormhole._dilation import outbound, inbound, manager, connection as cm
    target = rep["target"]
    rel, qn = target.split(":")
    clsname, meth = qn.split(".")
    mod = {"outbound.py": outbound, "inbound.py": inbound, "manager.py": manager}[rel.split("/")[-1]]
    cls = getattr(mod, clsname)
    inputs = rep.get("inputs") or {}
    if "__error__" in inputs or "self" not in inputs:
        return False, "no concrete input"
    sf = inputs["self"].get("fields", {})
    if clsname == "Manager":
        o = object.__new__(cls)
        for k, v in sf.items():
            sub = {"_outbound": outbound.Outbound, "_inbound": inbound.Inbound}.get(k)
            if sub is not None:
                object.__setattr__(o, k, build(sub, v.get("fields", {}), cm, k))
    else:
        o = build(cls, sf, cm)
    args = {}
    for k, v in inputs.items():
        if k == "self" or "." in k:
            continue
        if isinstance(v, dict) and v.get("__obj__") == "Conn":
            args[k] = build_conn(v, cm, "param-" + k)
        elif isinstance(v, dict) and "__opaque__" in v:
            args[k] = fake(v["__opaque__"], v["id"])
        elif isinstance(v, dict) and "__tuple__" in v:
            args[k] = record(v, cm)
        elif isinstance(v, dict) and "__bytes__" in v:
            args[k] = bytes(x & 0xff for x in v["__bytes__"])
        else:
            args[k] = v
    import inspect
    f = getattr(cls, meth)
    call_args = {k: v for k, v in args.items() if k in inspect.signature(f).parameters}
    old_self = copy.deepcopy(o)
    old_args = {k: copy.deepcopy(v) for k, v in call_args.items()}
    del TRACE[:]
    raised = None
    result = None
    try:
        result = f(o, **call_args)
    except BaseException as e:      # noqa
        raised = e
    msg = [f"called {target} with {call_args!r}; observed " +
           (f"raised {type(raised).__name__}: {raised}" if raised is not None else f"returned {result!r}") +
           f"; boundary calls {bcall_names()}"]
    kind, clause = rep.get("kind"), rep.get("clause")
    if kind == "no-exception":
        want = rep.get("exc")
        return (raised is not None and any(c.__name__ == want for c in type(raised).__mro__)), "\n".join(msg)
    if kind not in ("ensures", "frame", "call-requires") or not isinstance(clause, str) or raised is not None:
        return False, "\n".join(msg + ["not replayable natively (kind %r)" % kind])
    env = dict(specfuncs.NATIVE)
    env.update(vars(cm))
    env.update(call_args)
    env.update(bcalls=bcalls, bcall_arg=bcall_arg, bcall_names=bcall_names, self=View(o), result=result)
    oldenv = dict(specfuncs.NATIVE)
    oldenv.update(old_args)
    oldenv["self"] = View(old_self)

    class Rew(ast.NodeTransformer):
        def visit_Call(self, node):
            if isinstance(node.func, ast.Name) and node.func.id == "old":
                val = eval(compile(ast.Expression(node.args[0]), "<old>", "eval"), oldenv)
                name = f"__old{len(env)}"
                env[name] = val
                return ast.copy_location(ast.Name(name, ast.Load()), node)
            if isinstance(node.func, ast.Name) and node.func.id == "implies":
                a, b = self.visit(node.args[0]), self.visit(node.args[1])
                return ast.copy_location(ast.BoolOp(ast.Or(), [ast.UnaryOp(ast.Not(), a), b]), node)
            return self.generic_visit(node)

    if kind == "frame":
        return False, "\n".join(msg + ["frame clause: not replayed"])
    try:
        tree = ast.fix_missing_locations(Rew().visit(ast.parse(clause.strip(), mode="eval")))
        val = eval(compile(tree, "<clause>", "eval"), env)
    except Exception as e:          # noqa
        return False, "\n".join(msg + [f"clause not evaluable natively: {e!r}"])
    msg.append(f"required: {clause} -> {val!r}")
    return (not val), "\n".join(msg)
