"""Symbolic interpreter for the Python subset (see DESIGN.md 2.2).

It executes the *real* ast of repository functions over symbolic values, one path
per run (path forking by re-execution with a decision list, see ctx.Ctx).
"""
import ast
import copy
import z3

from .values import *          # noqa
from .values import J, OJ
from .ctx import PathEnd
from . import source
from . import regex as rx


class ReturnSig(Exception):
    def __init__(self, value):
        self.value = value


class SpecUndefined(Exception):
    """a contract sub-expression dereferences None on this path"""


class BreakSig(Exception):
    pass


class ContinueSig(Exception):
    pass


class PyRaise(Exception):
    """a Python exception raised by the code under analysis"""

    def __init__(self, exc):
        self.exc = exc      # VObj of an exception class


BUILTIN_EXC = {
    "BaseException": None, "Exception": "BaseException", "TypeError": "Exception",
    "ValueError": "Exception", "KeyError": "LookupError", "IndexError": "LookupError",
    "LookupError": "Exception", "AttributeError": "Exception", "AssertionError": "Exception",
    "RuntimeError": "Exception", "NotImplementedError": "RuntimeError", "StopIteration": "Exception",
    "UnicodeDecodeError": "ValueError", "UnicodeError": "ValueError", "OSError": "Exception",
    "IOError": "OSError", "ZeroDivisionError": "ArithmeticError", "ArithmeticError": "Exception",
    "OverflowError": "ArithmeticError", "struct.error": "Exception", "binascii.Error": "ValueError",
    "KeyboardInterrupt": "BaseException", "FileNotFoundError": "OSError",
    # library exceptions that the repository catches or lets through
    "CryptoError": "Exception", "NoTransition": "Exception", "NoiseInvalidMessage": "Exception",
    "JSONDecodeError": "ValueError", "error.ConnectionClosed": "Exception", "CancelledError": "Exception",
    "ConnectionDone": "Exception", "ConnectionLost": "Exception", "ConnectionRefusedError": "OSError",
}


class Frame:
    def __init__(self, fdef=None, module=None, selfobj=None, parent=None):
        self.locals = {}
        self.fdef = fdef
        self.module = module
        self.selfobj = selfobj
        self.parent = parent     # enclosing frame for closures
        self.spec = None         # dict in spec mode: {"old": frame, "result": V}
        self.loop_ordinal = 0

    def lookup(self, name):
        f = self
        while f is not None:
            if name in f.locals:
                return f.locals[name]
            f = f.parent
        return None


class Registry:
    """everything the interpreter needs to know besides the code: contracts, class
    tables, external models, what is dropped."""

    def __init__(self):
        self.contracts = {}       # fdef.key -> Contract
        self.inline = set()       # fdef.key that may be inlined without contract
        self.func_models = {}
        self.field_hooks = {}     # (class, field) -> hook(it, obj, new value): ghost bookkeeping on assignment     # fdef.key -> python model replacing a repository function (listed as assumed)
        self.ext_models = {}      # dotted name -> python callable(interp, args, kwargs)
        self.spec_funcs = {}      # name -> python callable(interp, *args)
        self.class_fields = {}    # class name -> {field: type}   (for fresh objects)
        self.field_class = {}     # (class, field) -> class name of the object held (wiring)
        self.drop_calls = ["log.msg", "log.err", "print", "self._debug", "debug", "self._timing.add",
                           "warnings.warn", "traceback.print_exc", "log.failure"]
        self.boundary = {}        # "Class.method" pattern or field name -> effect description
        self.assumptions = []
        self.exc_bases = dict(BUILTIN_EXC)
        self.repo_classes = {}    # name -> ClassDef
        self.current = None       # key of the function being verified (never replaced by its contract)
        self.max_inline_depth = 12
        self.automat = None       # automat support (tables), set by pyvc.automat
        self.opaque_call_ok = set()
        self.ext_consts = {"nacl.secret.SecretBox.NONCE_SIZE": 24, "nacl.secret.SecretBox.KEY_SIZE": 32}

    def note(self, s):
        if s not in self.assumptions:
            self.assumptions.append(s)

    def register_repo_class(self, cd):
        self.repo_classes[cd.name] = cd
        if cd.bases:
            b = cd.bases[0].split(".")[-1]
            self.exc_bases.setdefault(cd.name, b)

    def is_subclass(self, name, base):
        seen = 0
        while name is not None and seen < 30:
            if name == base:
                return True
            name = self.exc_bases.get(name)
            seen += 1
        return False


MUTATORS = {"append", "appendleft", "pop", "popleft", "add", "remove", "discard", "clear", "extend",
            "rotate", "update", "insert", "setdefault", "sort"}


class Interp:
    def __init__(self, ctx, reg):
        self.ctx = ctx
        self.reg = reg
        self.depth = 0
        self.spec_mode = 0
        self.quant_depth = 0
        self.path_ghost_frames = {}      # ghost variable -> frame of the loop that owns it
        self.root_frame = None           # body frame of the function under verification
        self.moved_loop_depth = 0

    # ------------------------------------------------------------------ helpers
    def fresh(self, t, name):
        v, cons = fresh(t, name, self.ctx.namer, self.fresh_object)
        for c in cons:
            self.ctx.assume(c)
        return v

    def fresh_object(self, clsname, name):
        fields = self.reg.class_fields.get(clsname)
        o = VObj(clsname)
        if fields:
            for f, t in fields.items():
                if f == "__state":
                    continue
                o.fields[f] = self.fresh(t, f"{name}.{f}")
        cd = self.reg.repo_classes.get(clsname)
        if cd is not None and self.reg.automat is not None and (fields is None or "__state" in (fields or {})):
            if self.reg.automat.machine_of(cd) is not None:
                self.reg.automat.fresh_state(self, o, cd, name)
        return o, []

    def fresh_like(self, v, name):
        if isinstance(v, VInt):
            return self.fresh("int", name)
        if isinstance(v, VBool):
            return self.fresh("bool", name)
        if isinstance(v, VReal):
            return self.fresh("real", name)
        if isinstance(v, VStr):
            return self.fresh(v.kind, name)
        if isinstance(v, VSeq):
            return VSeq(z3.Const(self.ctx.namer(name), v.z.sort()), v.elem)
        if isinstance(v, VSet):
            return VSet(z3.Const(self.ctx.namer(name), v.z.sort()), v.elem)
        if isinstance(v, VMap):
            nm = VMap(z3.Const(self.ctx.namer(name + "_p"), v.present.sort()),
                      z3.Const(self.ctx.namer(name + "_v"), v.val.sort()), v.kt, v.vt)
            if getattr(v, "default_empty", False):
                nm.default_empty = True
            return nm
        if isinstance(v, VOpt):
            return VOpt(z3.Bool(self.ctx.namer(name + "_isnone")), self.fresh_like(v.inner, name))
        if isinstance(v, VJson):
            return self.fresh("json", name)
        if isinstance(v, VOpaque):
            return self.fresh(T("opaque", name=v.name), name)
        if isinstance(v, VTuple):
            return VTuple([self.fresh_like(x, f"{name}_{i}") for i, x in enumerate(v.items)], v.ntname, v.ntfields)
        if v is NONE:
            return NONE
        if isinstance(v, (VObj, VFunc, VClass, VExt)):
            return v
        raise OutOfSubset(f"cannot havoc {v!r}")

    def force(self, v):
        """split an optional / union value into its kinds by path forking"""
        while isinstance(v, (VOpt, VUnion)):
            if isinstance(v, VUnion):
                i = self.ctx.choose([c for c, _ in v.alts], "union")
                v = v.alts[i][1]
                continue
            if self.ctx.branch(v.isnone, "isnone"):
                return NONE
            v = v.inner
        return v

    def raise_(self, clsname, *args):
        e = VObj(clsname, {"args": VTuple(list(args))})
        raise PyRaise(e)

    # ------------------------------------------------------------------ truth / equality
    def truth(self, v):
        if isinstance(v, VBool):
            return v.z
        if v is NONE:
            return z3.BoolVal(False)
        if isinstance(v, VInt):
            return v.z != 0
        if isinstance(v, VReal):
            return v.z != 0
        if isinstance(v, VStr):
            return z3.Length(v.z) > 0
        if isinstance(v, (VTuple, VList)):
            return z3.BoolVal(len(v.items) > 0)
        if isinstance(v, VDict):
            return z3.BoolVal(len(v.d) > 0)
        if isinstance(v, VSeq):
            return z3.Length(v.z) > 0
        if isinstance(v, VSet):
            if v.z is None:
                return z3.BoolVal(False)
            return v.z != z3.K(v.z.sort().domain(), z3.BoolVal(False))
        if isinstance(v, VMap):
            return v.present != z3.K(v.present.sort().domain(), z3.BoolVal(False))
        if isinstance(v, VOpt):
            return z3.And(z3.Not(v.isnone), self.truth(v.inner))
        if isinstance(v, VUnion):
            return z3.Or([z3.And(c, self.truth(x)) for c, x in v.alts])
        if isinstance(v, VJson):
            z = v.z
            return z3.If(J.is_jnull(z), False,
                   z3.If(J.is_jbool(z), J.b(z),
                   z3.If(J.is_jint(z), J.i(z) != 0,
                   z3.If(J.is_jreal(z), J.r(z) != 0,
                   z3.If(J.is_jstr(z), z3.Length(J.s(z)) > 0,
                   z3.If(J.is_jlist(z), z3.Length(J.l(z)) > 0,
                         J.d(z) != z3.K(StringS, OJ.absent)))))))
        if isinstance(v, VBoundExt) and isinstance(v.recv, (VOpaque, VObj)) and not self.spec_mode:
            # an attribute of a collaborator object the contract does not describe: it may be a bound method (truthy) or a
            # data attribute in any state - its truth value is unknown (every read is a fresh unknown: sound, since a call in
            # between may have changed it)
            rc = v.recv
            cd = self.reg.repo_classes.get(rc.cls if isinstance(rc, VObj) else rc.name)
            if cd is not None and self.find_method(cd.name, v.meth) is not None:
                return z3.BoolVal(True)
            return z3.Bool(self.ctx.namer(f"truth_of_{v.meth}"))
        if isinstance(v, (VObj, VFunc, VClass, VOpaque, VExt, VBoundExt)):
            return z3.BoolVal(True)
        raise OutOfSubset(f"truth of {v!r}")

    def eq(self, a, b):
        if isinstance(a, VUnion):
            return z3.Or([z3.And(c, self.eq(x, b)) for c, x in a.alts])
        if isinstance(b, VUnion):
            return z3.Or([z3.And(c, self.eq(a, x)) for c, x in b.alts])
        if isinstance(a, VOpt):
            return z3.If(a.isnone, self.eq(NONE, b), self.eq(a.inner, b))
        if isinstance(b, VOpt):
            return z3.If(b.isnone, self.eq(a, NONE), self.eq(a, b.inner))
        if a is NONE or b is NONE:
            if isinstance(a, VJson):
                return J.is_jnull(a.z)
            if isinstance(b, VJson):
                return J.is_jnull(b.z)
            return z3.BoolVal(a is b)
        num = (VInt, VBool, VReal)
        if isinstance(a, num) and isinstance(b, num):
            if isinstance(a, VBool) and isinstance(b, VBool):
                return a.z == b.z
            return self._num(a) == self._num(b)
        if isinstance(a, VStr) and isinstance(b, VStr):
            if a.kind != b.kind:
                return z3.BoolVal(False)
            return a.z == b.z
        if isinstance(a, VJson) or isinstance(b, VJson):
            try:
                return to_json(a) == to_json(b)
            except OutOfSubset:
                return z3.BoolVal(False)
        if isinstance(a, (VTuple, VList)) and isinstance(b, (VTuple, VList)):
            if type(a) is not type(b) or len(a.items) != len(b.items):
                return z3.BoolVal(False)
            if isinstance(a, VTuple) and a.ntname != b.ntname and (a.ntname is None or b.ntname is None) is False:
                # distinct namedtuple classes with equal fields still compare equal as tuples in
                # CPython; the repository never relies on that, and the hints differ by class
                pass
            return z3.And([self.eq(x, y) for x, y in zip(a.items, b.items)] + [z3.BoolVal(True)])
        if isinstance(a, VSeq) and isinstance(b, VSeq):
            return a.z == b.z
        if isinstance(a, VSeq) and isinstance(b, VList):
            return a.z == to_z3(b, T("seq", [a.elem]))
        if isinstance(a, VList) and isinstance(b, VSeq):
            return self.eq(b, a)
        if isinstance(a, VSet) and isinstance(b, VSet):
            if getattr(a, "pointwise", False) or getattr(b, "pointwise", False):
                # opt-in (set by a model): membership-wise equality, which skolemises as a goal
                k = z3.Const("k!seteq", a.z.sort().domain())
                return z3.ForAll([k], a.z[k] == b.z[k])
            return a.z == b.z
        if isinstance(a, VMap) and isinstance(b, VMap):
            return z3.And(a.present == b.present,
                          z3.ForAll([k := z3.Const("k!eq", a.present.sort().domain())],
                                    z3.Implies(a.present[k], a.val[k] == b.val[k])))
        if isinstance(a, VOpaque) and isinstance(b, VOpaque):
            if a.name != b.name:
                return z3.BoolVal(False)
            return a.z == b.z
        if isinstance(a, VOpaque) and isinstance(b, VObj) and isinstance(b.fields.get("__id"), VOpaque):
            # an object with a ghost handle `__id: opaque[X]` compared with a handle taken out of a container of opaque[X]
            return self.eq(a, b.fields["__id"])
        if isinstance(b, VOpaque) and isinstance(a, VObj) and isinstance(a.fields.get("__id"), VOpaque):
            return self.eq(a.fields["__id"], b)
        if isinstance(a, VObj) and isinstance(b, VObj):
            # identity; a snapshot (old(...), at_entry(...)) of an object keeps its oid
            return z3.BoolVal(a is b or a.oid == b.oid)
        if isinstance(a, VDict) and isinstance(b, VDict):
            if set(a.d) != set(b.d):
                return z3.BoolVal(False)
            return z3.And([self.eq(a.d[k], b.d[k]) for k in a.d] + [z3.BoolVal(True)])
        if isinstance(a, (VClass, VFunc, VExt)) or isinstance(b, (VClass, VFunc, VExt)):
            if type(a) is type(b) and isinstance(a, VClass):
                return z3.BoolVal(a.name == b.name)
            if type(a) is type(b) and isinstance(a, VExt):
                return z3.BoolVal(a.name == b.name)
            return z3.BoolVal(a is b)
        if type(a).__name__ == "VNamedTupleClass" and type(b).__name__ == "VNamedTupleClass":
            # namedtuple classes (module-level constants, re-created per lookup): the same class iff same name and fields
            return z3.BoolVal(a.name == b.name and list(a.fields) == list(b.fields))
        return z3.BoolVal(False)

    def _num(self, v):
        if isinstance(v, VBool):
            return z3.If(v.z, 1, 0)
        return v.z

    def same(self, a, b):
        """'is' comparison"""
        if isinstance(a, VUnion):
            return z3.Or([z3.And(c, self.same(x, b)) for c, x in a.alts])
        if isinstance(b, VUnion):
            return z3.Or([z3.And(c, self.same(a, x)) for c, x in b.alts])
        if isinstance(a, VOpt):
            return z3.If(a.isnone, self.same(NONE, b), self.same(a.inner, b))
        if isinstance(b, VOpt):
            return z3.If(b.isnone, self.same(a, NONE), self.same(a, b.inner))
        if a is NONE or b is NONE:
            if isinstance(a, VJson):
                return J.is_jnull(a.z)
            if isinstance(b, VJson):
                return J.is_jnull(b.z)
            return z3.BoolVal(a is b)
        if isinstance(a, VBool) and isinstance(b, VBool):
            return a.z == b.z
        if isinstance(a, VJson) and isinstance(b, VBool):
            return z3.And(J.is_jbool(a.z), J.b(a.z) == b.z)
        if isinstance(a, VOpaque) and isinstance(b, VOpaque):
            return self.eq(a, b)
        if isinstance(a, VObj) and isinstance(b, VObj):
            return z3.BoolVal(a is b or a.oid == b.oid)
        if (isinstance(a, VOpaque) and isinstance(b, VObj) and isinstance(b.fields.get("__id"), VOpaque)) or \
                (isinstance(b, VOpaque) and isinstance(a, VObj) and isinstance(a.fields.get("__id"), VOpaque)):
            return self.eq(a, b)
        if isinstance(a, VObj) or isinstance(b, VObj):
            return z3.BoolVal(a is b or (isinstance(a, VObj) and isinstance(b, VObj) and a.oid == b.oid))
        return self.eq(a, b)

    # ------------------------------------------------------------------ statements
    def exec_block(self, stmts, fr):
        for s in stmts:
            self.exec_stmt(s, fr)

    def exec_stmt(self, s, fr):
        m = getattr(self, "s_" + type(s).__name__, None)
        if m is None:
            raise OutOfSubset(f"statement {type(s).__name__} at line {s.lineno}")
        m(s, fr)

    def s_Pass(self, s, fr):
        pass

    def s_Break(self, s, fr):
        raise BreakSig()

    def s_Continue(self, s, fr):
        raise ContinueSig()

    def s_Global(self, s, fr):
        pass

    def s_Nonlocal(self, s, fr):
        fr.nonlocals = getattr(fr, "nonlocals", set()) | set(s.names)

    def s_Import(self, s, fr):
        for a in s.names:
            fr.locals[a.asname or a.name.split(".")[0]] = VExt(a.name if a.asname else a.name.split(".")[0])

    def s_ImportFrom(self, s, fr):
        for a in s.names:
            if s.level > 0 or (s.module or "").split(".")[0] == "wormhole":
                pkg = fr.module.relpath.split("/")[:-1]
                base = pkg[:len(pkg) - (s.level - 1)] if s.level > 0 else []
                parts = base + ((s.module or "").split(".") if s.module else [])
                m2 = source.module_from_parts(parts)
                if m2 is None:
                    raise OutOfSubset("local repo import inside function")
                sub = source.module_from_parts(parts + [a.name])
                if sub is not None and a.name not in m2.funcs and a.name not in m2.classes:
                    fr.locals[a.asname or a.name] = VExt("repo:" + sub.relpath)
                    continue
                v = self.module_name(m2, a.name)
                if v is None:
                    raise OutOfSubset(f"cannot import {a.name}")
                fr.locals[a.asname or a.name] = v
                continue
            fr.locals[a.asname or a.name] = VExt(f"{s.module}.{a.name}")

    def s_Expr(self, s, fr):
        if isinstance(s.value, ast.Constant):
            return
        self.eval(s.value, fr)

    def s_Return(self, s, fr):
        raise ReturnSig(self.eval(s.value, fr) if s.value is not None else NONE)

    def s_Assign(self, s, fr):
        if isinstance(s.value, ast.ListComp) and len(s.targets) == 1 and isinstance(s.targets[0], ast.Name) \
                and len(s.value.generators) == 1 and not s.value.generators[0].ifs:
            # xs = [e for t in it]  where the function's contract still carries the invariant of the loop that used
            # to build xs (a loop turned into a comprehension): read it back as  xs = []; for t in it: xs.append(e)
            g = s.value.generators[0]
            name = s.targets[0].id
            app = ast.Expr(ast.Call(func=ast.Attribute(value=ast.Name(id=name, ctx=ast.Load()), attr="append", ctx=ast.Load()),
                                    args=[s.value.elt], keywords=[]))
            loop = ast.For(target=g.target, iter=g.iter, body=[app], orelse=[])
            ast.fix_missing_locations(ast.copy_location(loop, s))
            ast.fix_missing_locations(ast.copy_location(app, s))
            if self.moved_loop_spec(loop, peek=True) is not None:
                fr.locals[name] = VList([])
                self.synthetic_loops = getattr(self, "synthetic_loops", set()) | {id(loop)}
                self._keep = getattr(self, "_keep", []) + [loop]
                return self.s_For(loop, fr)
        v = self.eval(s.value, fr)
        for t in s.targets:
            self.assign(t, v, fr)

    def s_AnnAssign(self, s, fr):
        if s.value is not None:
            self.assign(s.target, self.eval(s.value, fr), fr)

    def s_AugAssign(self, s, fr):
        load = copy.copy(s.target)
        load.ctx = ast.Load()
        cur = self.eval(load, fr)
        rhs = self.eval(s.value, fr)
        cur_f = self.force(cur)
        if isinstance(s.op, ast.Add) and isinstance(cur_f, (VSeq, VList)) and not isinstance(cur_f, VTuple):
            self.call_method(cur_f, "extend", [rhs], {})   # in-place
            return
        self.assign(s.target, self.binop(s.op, cur_f, rhs), fr)

    def assign(self, t, v, fr):
        if isinstance(t, ast.Name):
            f = fr
            if t.id in getattr(fr, "nonlocals", ()):
                f = fr.parent
                while f is not None and t.id not in f.locals:
                    f = f.parent
                if f is None:
                    raise OutOfSubset("nonlocal target not found")
            f.locals[t.id] = v
        elif isinstance(t, ast.Attribute):
            o = self.force(self.eval(t.value, fr))
            if not isinstance(o, VObj):
                raise OutOfSubset(f"attribute store on {o!r}")
            self.set_field(o, t.attr, v)
        elif isinstance(t, (ast.Tuple, ast.List)):
            v = self.force(v)
            items = self.unpack(v, len(t.elts))
            for e, x in zip(t.elts, items):
                self.assign(e, x, fr)
        elif isinstance(t, ast.Subscript):
            o = self.force(self.eval(t.value, fr))
            if isinstance(t.slice, ast.Slice):
                if t.slice.lower is None and t.slice.upper is None and t.slice.step is None:
                    v = self.force(v)
                    if isinstance(o, VList) and isinstance(v, (VList, VTuple)):
                        o.items[:] = list(v.items)
                        return
                    if isinstance(o, VSeq):
                        o.z = to_z3(v, T("seq", [o.elem]))
                        return
                raise OutOfSubset("slice assignment")
            k = self.eval(t.slice, fr)
            self.setitem(o, k, v)
        else:
            raise OutOfSubset(f"assign target {type(t).__name__}")

    def set_field(self, o, name, v):
        h = self.reg.field_hooks.get((o.cls, name))
        if h is not None:
            h(self, o, v)
        o.fields[name] = v

    def unpack(self, v, n):
        if isinstance(v, (VTuple, VList)):
            if len(v.items) != n:
                self.raise_("ValueError", VStr("unpack"))
            return v.items
        if isinstance(v, VSeq):
            if self.ctx.branch(z3.Length(v.z) != n):
                self.raise_("ValueError", VStr("unpack"))
            return [from_z3(v.z[i], v.elem) for i in range(n)]
        if isinstance(v, VJson):
            z = v.z
            if self.ctx.branch(z3.Not(J.is_jlist(z))):
                # str/dict are iterable too; model only the list case precisely
                if self.ctx.branch(z3.Or(J.is_jstr(z), J.is_jdict(z))):
                    raise OutOfSubset("unpack of JSON str/dict")
                self.raise_("TypeError", VStr("cannot unpack non-iterable"))
            if self.ctx.branch(z3.Length(J.l(z)) != n):
                self.raise_("ValueError", VStr("unpack"))
            return [VJson(J.l(z)[i]) for i in range(n)]
        raise OutOfSubset(f"unpack {v!r}")

    def s_Delete(self, s, fr):
        for t in s.targets:
            if isinstance(t, ast.Subscript):
                o = self.force(self.eval(t.value, fr))
                if isinstance(t.slice, ast.Slice):
                    sl = t.slice
                    if sl.lower is None and sl.upper is None and sl.step is None and isinstance(o, (VList, VSeq)) \
                            and not isinstance(o, VTuple):
                        # del x[:]  ==  x[:] = []  ==  x.clear()
                        self.call_method(o, "clear", [], {})
                        continue
                    raise OutOfSubset("del of a slice")
                k = self.eval(t.slice, fr)
                self.delitem(o, k)
            elif isinstance(t, ast.Name):
                fr.locals.pop(t.id, None)
            elif isinstance(t, ast.Attribute):
                # del obj.attr: the instance attribute disappears (a later read falls back to the class)
                o = self.force(self.eval(t.value, fr))
                if not isinstance(o, VObj):
                    raise OutOfSubset("del attribute of a non-object")
                if t.attr not in o.fields:
                    self.raise_("AttributeError", VStr(t.attr))
                del o.fields[t.attr]
            else:
                raise OutOfSubset("del target")

    def s_If(self, s, fr):
        c = self.truth(self.eval(s.test, fr))
        if self.ctx.branch(c, f"if@{s.lineno}"):
            self.exec_block(s.body, fr)
        else:
            self.exec_block(s.orelse, fr)

    def s_Assert(self, s, fr):
        c = self.truth(self.eval(s.test, fr))
        mode = getattr(self.reg, "assert_mode", "raise")
        if mode == "prove":
            fn = fr.fdef.key if fr.fdef else "?"
            self.ctx.prove(c, f"assert@{fn}:{ast.unparse(s.test)}",
                           {"kind": "assert", "line": s.lineno, "src": ast.unparse(s.test), "function": fn.split(":")[-1]})
            self.ctx.assume(c)
        else:
            if not self.ctx.branch(c, f"assert@{s.lineno}"):
                self.raise_("AssertionError")

    def s_Raise(self, s, fr):
        if s.exc is None:
            cur = getattr(fr, "current_exc", None)
            if cur is None:
                raise OutOfSubset("bare raise outside except")
            raise PyRaise(cur)
        v = self.force(self.eval(s.exc, fr))
        if isinstance(v, VClass):
            v = self.instantiate(v, [], {}, fr)
        if not isinstance(v, VObj):
            raise OutOfSubset(f"raise of {v!r}")
        raise PyRaise(v)

    def s_Try(self, s, fr):
        try:
            try:
                self.exec_block(s.body, fr)
            except PyRaise as pr:
                handled = False
                for h in s.handlers:
                    if self.exc_matches(pr.exc, h.type, fr):
                        handled = True
                        if h.name:
                            fr.locals[h.name] = pr.exc
                        saved = getattr(fr, "current_exc", None)
                        fr.current_exc = pr.exc
                        try:
                            self.exec_block(h.body, fr)
                        finally:
                            fr.current_exc = saved
                        break
                if not handled:
                    raise
            else:
                self.exec_block(s.orelse, fr)
        except (PyRaise, ReturnSig, BreakSig, ContinueSig):
            if s.finalbody:
                self.exec_block(s.finalbody, fr)
            raise
        else:
            if s.finalbody:
                self.exec_block(s.finalbody, fr)

    def exc_matches(self, exc, texpr, fr):
        if texpr is None:
            return True
        names = []
        if isinstance(texpr, ast.Tuple):
            names = [ast.unparse(e) for e in texpr.elts]
        else:
            names = [ast.unparse(texpr)]
        for n in names:
            short = n.split(".")[-1]
            if self.reg.is_subclass(exc.cls, short) or self.reg.is_subclass(exc.cls, n):
                return True
        return False

    def s_With(self, s, fr):
        for item in s.items:
            src = ast.unparse(item.context_expr)
            if any(src.startswith(d) for d in self.reg.drop_calls):
                if item.optional_vars is not None:
                    self.assign(item.optional_vars, VOpaque(z3.Const(self.ctx.namer("ctxmgr"), opaque_sort("ctxmgr")), "ctxmgr"), fr)
                continue
            h = self.reg.ext_models.get("with:" + src.split("(")[0])
            if h is None:
                raise OutOfSubset(f"with {src}")
            h(self, item, fr)
        self.exec_block(s.body, fr)

    def s_FunctionDef(self, s, fr):
        fd = source.FuncDef(fr.module, (fr.fdef.qualname + "." if fr.fdef else "") + "<locals>." + s.name, s, None,
                            ast.unparse(s))
        fr.locals[s.name] = VFunc(fd, None, fr, s.name)

    # ---- loops
    def s_While(self, s, fr):
        self.loop(s, fr, None)

    def s_For(self, s, fr):
        it = self.force(self.eval(s.iter, fr))
        if isinstance(it, VGen):
            return self.for_generator(s, fr, it)
        it = self.iterable_of(it)
        if isinstance(it, VDict):
            it = VList([self.const(k) for k in it.d])
        if isinstance(it, (VList, VTuple)):
            items = list(it.items)
            try:
                for x in items:
                    self.assign(s.target, x, fr)
                    try:
                        self.exec_block(s.body, fr)
                    except ContinueSig:
                        continue
                else:
                    self.exec_block(s.orelse, fr)
            except BreakSig:
                pass
            return
        if isinstance(it, VRange) and z3.is_int_value(z3.simplify(it.lo)) and z3.is_int_value(z3.simplify(it.hi)):
            lo, hi = z3.simplify(it.lo).as_long(), z3.simplify(it.hi).as_long()
            if hi - lo <= 64:
                try:
                    for i in range(lo, hi):
                        self.assign(s.target, VInt(i), fr)
                        try:
                            self.exec_block(s.body, fr)
                        except ContinueSig:
                            continue
                    else:
                        self.exec_block(s.orelse, fr)
                except BreakSig:
                    pass
                return
        self.loop(s, fr, it)

    def for_generator(self, s, fr, gen):
        """`for x in g(...)` over a repository generator function (opt-in: reg.lazy_generators).  Python runs the two
        bodies as coroutines: the generator runs up to a `yield v`, the loop body runs with x = v, the generator
        resumes.  That interleaving is executed literally: the generator body is run in place and every `yield`
        runs the consumer's loop body (no summary, no list of results).  Loops inside the generator are cut with
        their own sidecar invariant PLUS the invariants of every enclosing generator-for (see loop())."""
        fd = gen.f.fdef
        if yield_inside_try(fd.node):
            # an exception raised by the consumer's body must not be seen by a handler of the generator
            raise OutOfSubset(f"generator {fd.key}: yield inside try/with")
        ordn = static_loop_ordinal(fr.fdef, s) if fr.fdef is not None else 0
        c = self.reg.contracts.get(fr.fdef.key) if fr.fdef else None
        spec = (c.loops.get(ordn) if c is not None else None) or {}
        fn = fr.fdef.key if fr.fdef else "?"
        ent = {"s": s, "fr": fr, "spec": spec, "fn": fn, "ordn": ordn, "entry": self.snapshot_frame(fr)}
        for gname, gexpr in spec.get("ghost_init", {}).items():
            fr.locals[gname] = self.eval_spec(gexpr, fr, entry=ent["entry"])
            self.path_ghost_frames[gname] = fr
        stack = self.__dict__.setdefault("gen_for_stack", [])

        def on_yield(value):
            self.ctx.event("for-body-start", fn, ordn)
            self.assign(s.target, value, fr)
            iter_start = self.snapshot_frame(fr)
            fr.iter_start = iter_start
            try:
                self.exec_block(s.body, fr)
            except ContinueSig:
                pass
            except BreakSig:
                raise GenStop(ent, None)
            except ReturnSig as r:
                raise GenStop(ent, r)
            for upd_name, upd in spec.get("ghost_update", {}).items():
                fr.locals[upd_name] = self.eval_spec(upd, fr, entry=ent["entry"])
            for i, be in enumerate(spec.get("body_ensures", [])):
                self.ctx.prove(self.truth(self.eval_spec(be, fr, entry=ent["entry"], extra={"__iter_start": iter_start})),
                               f"{fn}#loop{ordn}.body{i}", {"kind": "loop-body", "src": be})
            self.ctx.event("for-body-end", fn, ordn)
            return NONE

        f, args = gen.f, gen.args
        nf = Frame(fd, fd.module, args[0] if (fd.cls is not None and args and not is_static(fd)) else None, f.closure)
        self.bind_args(fd.node, args, gen.kwargs, nf, Frame(None, fd.module, None, f.closure))
        nf.on_yield = on_yield
        if self.depth >= self.reg.max_inline_depth:
            raise OutOfSubset(f"inline depth exceeded at {fd.key}")
        stack.append(ent)
        self.depth += 1
        try:
            try:
                self.exec_block(fd.node.body, nf)
            except ReturnSig:
                pass            # the generator's own return: StopIteration, the loop ends normally
        except GenStop as g:
            if g.ent is not ent:
                raise
            if g.ret is not None:
                raise g.ret     # `return` inside the consumer's loop body
            return              # `break`: no else clause
        finally:
            self.depth -= 1
            stack.pop()
        self.exec_block(s.orelse, fr)

    def iterable_of(self, it):
        """what a for-loop / comprehension iterates over when handed a JSON value"""
        if isinstance(it, VJson):
            it = self.json_narrow(it)
        if it is NONE or isinstance(it, (VInt, VBool, VReal)):
            self.raise_("TypeError", VStr("object is not iterable"))
        if isinstance(it, VJsonDict):
            keys = z3.Const(self.ctx.namer("dictkeys"), z3.SeqSort(StringS))
            k = z3.Const("k!dk", StringS)
            self.ctx.assume(z3.ForAll([k], z3.Contains(keys, z3.Unit(k)) == OJ.is_present(z3.Select(J.d(it.z), k))))
            return VSeq(keys, "str")
        if isinstance(it, VStr):
            chars = z3.Const(self.ctx.namer("chars"), z3.SeqSort(StringS))
            j = z3.Int("j!ch")
            self.ctx.assume(z3.Length(chars) == z3.Length(it.z))
            self.ctx.assume(z3.ForAll([j], z3.Implies(z3.And(0 <= j, j < z3.Length(it.z)),
                                                      chars[j] == z3.SubString(it.z, j, 1))))
            return VSeq(chars, it.kind) if it.kind == "str" else VSeq(chars, "bytes")
        return it

    def loop(self, s, fr, it):
        """cut a loop at its head with a sidecar invariant"""
        ordn = static_loop_ordinal(fr.fdef, s) if fr.fdef is not None else 0
        spec = None
        c = self.reg.contracts.get(fr.fdef.key) if fr.fdef else None
        if c is not None:
            spec = c.loops.get(ordn)
        fn = fr.fdef.key if fr.fdef else "?"
        if spec is None and (c is None or id(s) in getattr(self, "synthetic_loops", ())):
            # a loop inside an inlined helper: the function under verification may have had this very loop in its
            # own body when its contract was written (extract-method refactoring): same iterated expression /
            # same condition => same sidecar invariant, which is still proved here, on the loop as it is now
            moved = self.moved_loop_spec(s)
            if moved is not None:
                fn, ordn, spec = moved
                self.moved_loop_depth += 1     # stays on for the rest of the path (post-loop clauses see the ghosts too)
        if spec is None:
            eng = getattr(self.reg, "cluster_engine", None)
            if eng is not None:
                return eng.cluster_loop(self, s, fr, it)
            if self.desugar_simple_for(s, fr):
                return
            why = f"loop #{ordn} in {fr.fdef.key if fr.fdef else '?'} has no invariant"
            if getattr(self.reg, "bounded_refutation", True) and getattr(self.reg, "cluster_engine", None) is None:
                return self.unroll_bounded(s, fr, it, why)
            raise OutOfSubset(why)
        header = ast.unparse(s.test) if isinstance(s, ast.While) else f"for {ast.unparse(s.target)} in {ast.unparse(s.iter)}"
        alias = {}
        if spec.get("header") and spec["header"] != header:
            # documentation only: a refactored header keeps its invariant (which must still be proved)
            self.reg.note(f"loop #{ordn} of {fn}: header is now {header!r} (contract was written for {spec['header']!r})")
            alias = loop_target_aliases(spec["header"], s)
        for nm, ty in spec.get("retype", {}).items():
            self.retype_local(fr, nm, ty)
        idxname = spec.get("index", "_i")
        ghost_pre = {}
        _eval_spec = self.eval_spec

        def eval_spec_aliased(src, fr_, **kw):
            # the invariant names the loop variables as the contract's header does; a renamed variable is the same thing
            for old_n, new_n in alias.items():
                v_ = fr_.lookup(new_n)
                if v_ is not None:
                    fr_.locals[old_n] = v_
            return _eval_spec(src, fr_, **kw)
        # loop-entry snapshot for 'at_entry(...)' in invariants
        entry = self.snapshot_frame(fr)
        if it is not None:
            fr.locals[idxname] = VInt(0)
            fr.locals["_iter"] = it
            if isinstance(it, VSet):
                fr.locals["_done"] = VSet(z3.K(it.z.sort().domain(), z3.BoolVal(False)), it.elem)
            if isinstance(it, VSeq):
                # python iterates the live list; contracts must say the body does not change it
                pass
        for gname, gexpr in spec.get("ghost_init", {}).items():
            fr.locals[gname] = eval_spec_aliased(gexpr, fr, entry=entry)
            self.path_ghost_frames[gname] = fr
        for i, inv in enumerate(spec["invariant"]):
            self.ctx.prove(self.truth(eval_spec_aliased(inv, fr, entry=entry)), f"{fn}#loop{ordn}.inv{i}.entry",
                           {"kind": "loop-entry", "src": inv})
        # a loop inside a generator that is being consumed by `for` loops (for_generator): the consumers' bodies run
        # inside this loop's iterations, so their invariants are cut here too and what they modify is havocked
        outer = list(getattr(self, "gen_for_stack", ()))
        for E in outer:
            for i, inv in enumerate(E["spec"].get("invariant", [])):
                self.ctx.prove(self.truth(self.eval_spec(inv, E["fr"], entry=E["entry"])),
                               f"{E['fn']}#loop{E['ordn']}.inv{i}.entry", {"kind": "loop-entry", "src": inv})
        # havoc
        targets = set(spec.get("modifies", []))
        targets |= assigned_targets(s.body, self, fr)
        if it is not None:
            targets |= {("local", idxname)}
            if isinstance(it, VSet):
                targets |= {("local", "_done")}
            for n in ast.walk(s.target):
                if isinstance(n, ast.Name):
                    targets.add(("local", n.id))
        for g in spec.get("ghost_init", {}):
            targets.add(("local", g))
        for tg in sorted(targets, key=str):
            self.havoc_target(tg, fr)
        outer_targets = []
        for E in outer:
            tgs = set(tuple(t) for t in E["spec"].get("modifies", [])) | assigned_targets(E["s"].body, self, E["fr"])
            for n in ast.walk(E["s"].target):
                if isinstance(n, ast.Name):
                    tgs.add(("local", n.id))
            for g in E["spec"].get("ghost_init", {}):
                tgs.add(("local", g))
            outer_targets.append(tgs)
            for tg in sorted(tgs, key=str):
                self.havoc_target(tg, E["fr"])
        for inv in spec["invariant"]:
            self.ctx.assume(self.truth(eval_spec_aliased(inv, fr, entry=entry)))
        for E in outer:
            for inv in E["spec"].get("invariant", []):
                self.ctx.assume(self.truth(self.eval_spec(inv, E["fr"], entry=E["entry"])))
        # loop condition
        if it is None:
            cond = self.truth(self.eval(s.test, fr))
            enter = self.ctx.branch(cond, f"while@{s.lineno}")
        else:
            idx = fr.locals[idxname]
            if isinstance(it, VSeq):
                self.ctx.assume(idx.z >= 0)
                self.ctx.assume(idx.z <= z3.Length(it.z))
                enter = self.ctx.branch(idx.z < z3.Length(it.z), f"for@{s.lineno}")
                if enter:
                    self.assign(s.target, from_z3(it.z[idx.z], it.elem), fr)
            elif isinstance(it, VRange):
                self.ctx.assume(idx.z >= 0)
                n = it.hi - it.lo
                self.ctx.assume(z3.Or(idx.z <= n, z3.And(n < 0, idx.z == 0)))
                enter = self.ctx.branch(idx.z < n, f"for@{s.lineno}")
                if enter:
                    self.assign(s.target, VInt(it.lo + idx.z), fr)
            elif isinstance(it, VSet):
                done = fr.locals["_done"]
                k = z3.Const(self.ctx.namer("elem"), it.z.sort().domain())
                # done is a subset of the iterated set
                ksub = z3.Const("k!sub", it.z.sort().domain())
                self.ctx.assume(z3.ForAll([ksub], z3.Implies(done.z[ksub], it.z[ksub])))
                enter = self.ctx.branch(done.z != it.z, f"for@{s.lineno}")
                if enter:
                    self.ctx.assume(z3.And(it.z[k], z3.Not(done.z[k])))
                    mp_ = getattr(it, "items_of", None)
                    if mp_ is not None:     # for k, v in d.items(): an arbitrary unvisited key with its value
                        elem = VTuple([from_z3(k, mp_.kt), from_z3(z3.Select(mp_.val, k), mp_.vt)])
                        self.assign(s.target, elem, fr)
                        fr.locals["_cur"] = elem
                        fr.locals["_curkey"] = from_z3(k, it.elem)
                    else:
                        self.assign(s.target, from_z3(k, it.elem), fr)
                        fr.locals["_cur"] = from_z3(k, it.elem)
            else:
                raise OutOfSubset(f"for over {it!r}")
        if enter:
            self.ctx.cover(f"{fn}#loop{ordn}.body")
            self.ctx.event("loop-body-start", ordn)
            for old_n, new_n in alias.items():
                if fr.lookup(new_n) is not None:
                    fr.locals[old_n] = fr.lookup(new_n)
            iter_start = self.snapshot_frame(fr)
            fr.iter_start = iter_start
            frame_snaps = None
            if getattr(self.reg, "check_loop_frame", False):
                frame_snaps = [(fr, iter_start, targets)] + [(E["fr"], self.snapshot_frame(E["fr"]), tg)
                                                             for E, tg in zip(outer, outer_targets)]
            try:
                try:
                    self.exec_block(s.body, fr)
                except ContinueSig:
                    pass
            except BreakSig:
                return
            if it is not None:
                fr.locals[idxname] = VInt(fr.locals[idxname].z + 1)
                if isinstance(it, VSet):
                    cur = fr.locals.get("_curkey", fr.locals["_cur"]) if getattr(it, "items_of", None) is not None else fr.locals["_cur"]
                    d = fr.locals["_done"]
                    fr.locals["_done"] = VSet(z3.Store(d.z, to_z3(cur, it.elem), True), it.elem)
            for upd_name, upd in spec.get("ghost_update", {}).items():
                fr.locals[upd_name] = eval_spec_aliased(upd, fr, entry=entry)
            for i, be in enumerate(spec.get("body_ensures", [])):
                self.ctx.prove(self.truth(eval_spec_aliased(be, fr, entry=entry, extra={"__iter_start": iter_start})),
                               f"{fn}#loop{ordn}.body{i}", {"kind": "loop-body", "src": be})
            for i, inv in enumerate(spec["invariant"]):
                self.ctx.prove(self.truth(eval_spec_aliased(inv, fr, entry=entry)), f"{fn}#loop{ordn}.inv{i}.preserved",
                               {"kind": "loop-preserve", "src": inv})
            for E in outer:
                for i, inv in enumerate(E["spec"].get("invariant", [])):
                    self.ctx.prove(self.truth(self.eval_spec(inv, E["fr"], entry=E["entry"])),
                                   f"{E['fn']}#loop{E['ordn']}.inv{i}.preserved", {"kind": "loop-preserve", "src": inv})
            if frame_snaps is not None:
                # opt-in (reg.check_loop_frame): whatever this iteration changed must have been havocked at the cut
                declared, und = set(), {}
                for f_, snap_, tg in frame_snaps:
                    declared |= {resolve_target(t, f_) for t in tg}
                for f_, snap_, tg in frame_snaps:
                    for loc, pretty in changed_locations(snap_, f_).items():
                        if loc not in declared:
                            und[loc] = pretty
                self.ctx.prove(z3.BoolVal(not und), f"{fn}#loop{ordn}.frame",
                               {"kind": "loop-frame", "definite": True,
                                "src": "every location the iteration changed is havocked at the loop cut"
                                       + (f" (undeclared: {sorted(und.values())})" if und else "")})
            raise PathEnd("loop cut")
        else:
            self.ctx.cover(f"{fn}#loop{ordn}.exit")
            self.ctx.event("loop-exit", ordn)
            if hasattr(s, "orelse") and s.orelse:
                self.exec_block(s.orelse, fr)

    UNROLL = 2

    def unroll_bounded(self, s, fr, it, why):
        """REFUTATION ONLY.  A loop without invariant cannot be verified; it is unrolled at most UNROLL times so that a
        counterexample on a short run can still be found and replayed natively.  Every obligation generated from here
        on is marked `bounded`: discharging it proves nothing (the function stays out of reach), refuting it counts only
        with a native witness."""
        self.ctx.note_bounded(f"{why}: unrolled at most {self.UNROLL} times, for refutation only")
        mo = getattr(it, "members_of", None)
        if mo is not None:
            # list(some set / dict): enumerate it as n distinct fresh members, n = 0..UNROLL (no sequence theory needed)
            arr, et = mo
            n = self.ctx.choose([z3.BoolVal(True)] * (self.UNROLL + 2), f"members@{s.lineno}")
            if n > self.UNROLL:
                raise PathEnd("unroll bound")
            es = [z3.Const(self.ctx.namer(f"member{i}"), arr.sort().domain()) for i in range(n)]
            acc = z3.K(arr.sort().domain(), z3.BoolVal(False))
            for e_ in es:
                acc = z3.Store(acc, e_, z3.BoolVal(True))
            self.ctx.assume(arr == acc)
            if len(es) > 1:
                self.ctx.assume(z3.Distinct(*es))
            it = VList([from_z3(e_, et) for e_ in es])
        if isinstance(it, VList):
            try:
                for x in list(it.items):
                    self.assign(s.target, x, fr)
                    try:
                        self.exec_block(s.body, fr)
                    except ContinueSig:
                        continue
                else:
                    if getattr(s, "orelse", None):
                        self.exec_block(s.orelse, fr)
            except BreakSig:
                pass
            return
        try:
            for k in range(self.UNROLL + 1):
                if it is None:
                    enter = self.ctx.branch(self.truth(self.eval(s.test, fr)), f"while@{s.lineno}#{k}")
                elif isinstance(it, VSeq):
                    enter = self.ctx.branch(z3.IntVal(k) < z3.Length(it.z), f"for@{s.lineno}#{k}")
                    if enter:
                        self.assign(s.target, from_z3(it.z[k], it.elem), fr)
                elif isinstance(it, VRange):
                    enter = self.ctx.branch(it.lo + k < it.hi, f"for@{s.lineno}#{k}")
                    if enter:
                        self.assign(s.target, VInt(it.lo + k), fr)
                else:
                    raise OutOfSubset(why)
                if not enter:
                    if getattr(s, "orelse", None):
                        self.exec_block(s.orelse, fr)
                    return
                if k == self.UNROLL:
                    raise PathEnd("unroll bound")
                try:
                    self.exec_block(s.body, fr)
                except ContinueSig:
                    pass
        except BreakSig:
            return

    def desugar_simple_for(self, s, fr):
        """a for loop without a sidecar invariant whose body is one call per element, or one append per element,
        is the comprehension it spells out:   for x in xs: f(x)          ==  [f(x) for x in xs]
                                              for x in xs: ys.append(e)  ==  ys.extend([e for x in xs])
        (no break/continue/else, the loop variable is a plain name, ys does not mention it); the comprehension
        models - and their obligations - then apply unchanged"""
        if not isinstance(s, ast.For) or s.orelse or len(s.body) != 1 or not isinstance(s.target, ast.Name):
            return False
        st = s.body[0]
        if not (isinstance(st, ast.Expr) and isinstance(st.value, ast.Call)):
            return False
        call = st.value
        gen = ast.comprehension(target=s.target, iter=s.iter, ifs=[], is_async=0)
        tname = s.target.id
        if isinstance(call.func, ast.Attribute) and call.func.attr == "append" and len(call.args) == 1 and not call.keywords \
                and not any(isinstance(n, ast.Name) and n.id == tname for n in ast.walk(call.func.value)):
            elt = call.args[0]
            if isinstance(elt, ast.Name) and elt.id == tname:
                vals = self.eval(s.iter, fr)        # ys.extend(xs)
            else:
                comp = ast.ListComp(elt=elt, generators=[gen])
                ast.fix_missing_locations(ast.copy_location(comp, s))
                vals = self.eval(comp, fr)
            recv = self.force(self.eval(call.func.value, fr))
            valsf = self.force(vals)
            if isinstance(recv, VList) and not isinstance(recv, VTuple) and isinstance(valsf, VSeq) \
                    and isinstance(call.func.value, (ast.Name, ast.Attribute, ast.Subscript)):
                # a list of concrete length grows by a sequence of symbolic length: it becomes a symbolic sequence
                ty = T("seq", [valsf.elem])
                nv = VSeq(z3.Concat(to_z3(recv, ty), valsf.z) if recv.items else valsf.z, valsf.elem)
                tgt = copy.copy(call.func.value)
                tgt.ctx = ast.Store()
                self.assign(tgt, nv, fr)
            else:
                self.call_method(recv, "extend", [vals], {})
            self.reg.note(f"loop at line {s.lineno}: read as ys.extend([... for {tname} in ...])")
            return True
        comp = ast.ListComp(elt=call, generators=[gen])
        ast.fix_missing_locations(ast.copy_location(comp, s))
        self.eval(comp, fr)
        self.reg.note(f"loop at line {s.lineno}: read as the comprehension [{ast.unparse(call)} for {tname} in ...]")
        return True

    def moved_loop_spec(self, s, peek=False):
        cur = self.reg.contracts.get(self.reg.current) if getattr(self.reg, "current", None) else None
        if cur is None or not cur.loops:
            return None
        try:
            fd = cur.fdef
        except Exception:
            return None
        if fd is None:
            return None
        own = set(static_loop_headers(fd))
        here = loop_shape(s)
        used = self.__dict__.setdefault("_moved_used", set())
        cands = []
        for ordn, spec in sorted(cur.loops.items()):
            h = spec.get("header")
            if not h or (fd.key, ordn) in used:
                continue
            shp = header_shape(h)
            if shp is None or shp != here:
                continue
            if shp in own:
                continue        # the function still has that loop itself
            cands.append((fd.key, ordn, spec))
        if len(cands) != 1:
            return None
        if peek:
            return cands[0]
        used.add(cands[0][:2])
        self.reg.note(f"loop #{cands[0][1]} of {cands[0][0]} now lives in an inlined helper; its invariant is proved there")
        return cands[0]

    def retype_local(self, fr, nm, ty):
        """give a concrete empty/literal container a symbolic representation of declared type"""
        ty = parse_type(ty)
        if nm.startswith("self."):
            holder, key = fr.selfobj.fields, nm[5:]
        else:
            f = fr
            while f is not None and nm not in f.locals:
                f = f.parent
            if f is None:
                return
            holder, key = f.locals, nm
        cur = holder.get(key)
        if isinstance(cur, VList) and ty.kind in ("seq", "list", "deque"):
            if any(isinstance(x, (VOpt, VUnion)) for x in cur.items):
                cur = VList([self.force(x) for x in cur.items])     # an optional already tested on this path is the value it holds
            holder[key] = VSeq(to_z3(cur, ty), ty.args[0])
        elif isinstance(cur, VSet) and cur.z is None and ty.kind == "set":
            holder[key] = VSet(z3.K(sort_of(ty.args[0]), z3.BoolVal(False)), ty.args[0])
        elif isinstance(cur, VDict) and ty.kind == "dict":
            p = z3.K(sort_of(ty.args[0]), z3.BoolVal(False))
            vs = z3.Const(self.ctx.namer("emptyval"), z3.ArraySort(sort_of(ty.args[0]), sort_of(ty.args[1])))
            m = VMap(p, vs, ty.args[0], ty.args[1])
            for k, v in cur.d.items():
                self.setitem(m, self.const(k), v)
            holder[key] = m

    def havoc_target(self, tg, fr):
        kind = tg[0]
        if kind == "local" and len(tg) > 2:
            # ("local", name, f1, ..., fn): a field reached from a local object (through optionals)
            o = fr.lookup(tg[1])
            for p in tg[2:-1]:
                o = o.inner if isinstance(o, VOpt) else o
                o = o.fields.get(p) if isinstance(o, VObj) else None
            o = o.inner if isinstance(o, VOpt) else o
            if isinstance(o, VObj) and o.fields.get(tg[-1]) is not None:
                o.fields[tg[-1]] = self.fresh_like(o.fields[tg[-1]], tg[-1])
            return
        if kind == "local":
            cur = fr.lookup(tg[1])
            if cur is None:
                return
            nv = self.fresh_like(cur, tg[1])
            f = fr
            while f is not None and tg[1] not in f.locals:
                f = f.parent
            (f or fr).locals[tg[1]] = nv
        elif kind == "self":
            o = fr.selfobj
            if o is None:
                f2 = fr
                while f2 is not None and f2.selfobj is None:
                    f2 = f2.parent
                o = f2.selfobj if f2 else None
            if o is None:
                return
            path = tg[1:]
            for p in path[:-1]:
                o = o.fields.get(p)
                if isinstance(o, VOpt):
                    o = o.inner       # Optional[object]: the fields of the object, if it is there
                if not isinstance(o, VObj):
                    return
            cur = o.fields.get(path[-1])
            if cur is None:
                return
            if isinstance(cur, VSet) and cur.z is None:
                # a still untyped empty set() stored in a field whose type the registry declares: havoc it at that type
                ty = (self.reg.class_fields.get(o.cls) or {}).get(path[-1])
                nv0 = self.fresh(ty, path[-1]) if ty is not None else None
                if isinstance(nv0, VSet):
                    cur.z, cur.elem = nv0.z, nv0.elem
                    return
            if isinstance(cur, (VSeq, VSet, VMap)):
                # keep holder identity (aliases stay aliases)
                nv = self.fresh_like(cur, path[-1])
                if isinstance(cur, VMap):
                    cur.present, cur.val = nv.present, nv.val
                else:
                    cur.z = nv.z
            else:
                o.fields[path[-1]] = self.fresh_like(cur, path[-1])

    def snapshot_frame(self, fr):
        memo = {}
        nf = Frame(fr.fdef, fr.module, None, None)
        f = fr
        chain = []
        while f is not None:
            chain.append(f)
            f = f.parent
        for f in reversed(chain):
            for k, v in f.locals.items():
                nf.locals[k] = snapshot(v, memo)
        so = fr.selfobj
        nf.selfobj = snapshot(so, memo) if so is not None else None
        return nf

    # ------------------------------------------------------------------ expressions
    def const(self, c):
        if c is None:
            return NONE
        if isinstance(c, bool):
            return VBool(c)
        if isinstance(c, int):
            return VInt(c)
        if isinstance(c, float):
            return VReal(z3.RealVal(repr(c)))
        if isinstance(c, str):
            return VStr(c, "str")
        if isinstance(c, bytes):
            return VStr(c)
        if c is Ellipsis:
            return NONE
        raise OutOfSubset(f"constant {c!r}")

    def eval(self, e, fr):
        m = getattr(self, "e_" + type(e).__name__, None)
        if m is None:
            raise OutOfSubset(f"expression {type(e).__name__} at line {getattr(e, 'lineno', '?')}")
        return m(e, fr)

    def e_Constant(self, e, fr):
        return self.const(e.value)

    def e_Name(self, e, fr):
        return self.lookup_name(e.id, fr)

    def lookup_name(self, name, fr):
        v = fr.lookup(name)
        if v is not None:
            return v
        if (fr.spec is not None or self.spec_mode) and self.moved_loop_depth > 0 and self.root_frame is not None:
            # a loop that moved into an inlined helper: its invariant may name the parameters of the function it came from
            v = self.root_frame.lookup(name)
            if v is not None:
                return v
        if (fr.spec is not None or self.spec_mode) and name in self.path_ghost_frames:
            # a ghost variable of a loop that now lives in an inlined helper: visible to the clauses of the function
            v = self.path_ghost_frames[name].locals.get(name)
            if v is not None:
                return v
        if fr.spec is not None or self.spec_mode:
            if name in self.reg.spec_funcs:
                return VExt("spec:" + name)
        mod = fr.module
        if mod is not None:
            v = self.module_name(mod, name)
            if v is not None:
                return v
        if name in BUILTINS:
            return VExt("builtins." + name)
        if name in self.reg.exc_bases:
            return VClass(name)
        if name in self.reg.spec_funcs:
            return VExt("spec:" + name)
        raise OutOfSubset(f"unknown name {name}")

    def module_name(self, mod, name, depth=0):
        if name in mod.funcs:
            return VFunc(mod.funcs[name], None, None, name)
        if name in mod.classes:
            self.reg.register_repo_class(mod.classes[name])
            return VClass(name, mod.classes[name])
        if name in mod.imports:
            imp = mod.imports[name]
            if imp[0] == "ext":
                return VExt(imp[1])
            _, parts, nm = imp
            m2 = source.module_from_parts(parts)
            if m2 is not None:
                # 'from . import _interfaces' style: nm may itself be a module
                sub = source.module_from_parts(parts + [nm])
                if sub is not None and nm not in m2.funcs and nm not in m2.classes and nm not in m2.globals_ast:
                    return VExt("repo:" + sub.relpath)
                if depth > 5:
                    raise OutOfSubset("import chain")
                r = self.module_name(m2, nm, depth + 1)
                if r is not None:
                    return r
            raise OutOfSubset(f"cannot resolve import {name} in {mod.relpath}")
        if name in mod.globals_ast:
            key = (mod.relpath, name)
            gh = self.reg.ext_models.get("global:" + mod.relpath + ":" + name)
            if gh is not None:
                return gh(self)
            fr2 = Frame(None, mod)
            return self.eval(mod.globals_ast[name], fr2)
        return None

    def e_Attribute(self, e, fr):
        o = self.eval(e.value, fr)
        return self.getattr(o, e.attr, fr)

    def getattr(self, o, attr, fr=None):
        o = self.force(o)
        if isinstance(o, VObj):
            if attr in o.fields:
                return o.fields[attr]
            if attr == "__class__":
                return VClass(o.cls, self.reg.repo_classes.get(o.cls))
            m = self.find_method(o.cls, attr)
            if m is not None:
                return VFunc(m, o, None, attr)
            cd = self.reg.repo_classes.get(o.cls)
            c2 = cd
            while c2 is not None:
                if attr in c2.class_attrs:
                    return self.eval(c2.class_attrs[attr], Frame(None, c2.module))
                c2 = self.base_classdef(c2)
            h = self.reg.ext_models.get(f"attr:{o.cls}.{attr}")
            if h is not None:
                return h(self, o)
            inferred = self.infer_field_from_init(o, attr)
            if inferred is not None:
                o.fields[attr] = inferred
                return inferred
            if o.cls in self.reg.exc_bases and attr == "args":
                return VTuple([])
            # opaque collaborator object: method call handled at call time
            return VBoundExt(o, attr)
        if isinstance(o, VTuple) and o.ntfields and attr in o.ntfields:
            return o.items[o.ntfields.index(attr)]
        if isinstance(o, VTuple) and o.ntfields and getattr(self.reg, "nt_strict_attrs", False) and not self.spec_mode \
                and not hasattr(tuple, attr) and not attr.startswith("_"):
            # opt-in: a namedtuple without this field raises AttributeError (e.g. RelayV1Hint().priority)
            self.raise_("AttributeError", VStr(f"'{o.ntname}' object has no attribute '{attr}'"))
        if isinstance(o, VExt):
            if o.name.startswith("repo:"):
                m2 = source.load_module(o.name[5:])
                r = self.module_name(m2, attr)
                if r is None:
                    raise OutOfSubset(f"{o.name}.{attr}")
                return r
            full = o.name + "." + attr
            if full in self.reg.ext_consts:
                return self.const(self.reg.ext_consts[full])
            return VExt(full)
        if isinstance(o, VClass):
            cd = o.cdef
            if cd is not None:
                c2 = cd
                while c2 is not None:
                    if attr in c2.methods:
                        return VFunc(c2.methods[attr], None, None, attr)
                    if attr in c2.class_attrs:
                        return self.eval(c2.class_attrs[attr], Frame(None, c2.module))
                    c2 = self.base_classdef(c2)
            if attr == "__name__":
                return VStr(o.name)
            h = self.reg.ext_models.get(f"classattr:{o.name}.{attr}")
            if h is not None:
                return h(self)       # e.g. zope IFoo.providedBy, modelled by the property module
            raise OutOfSubset(f"class attribute {o.name}.{attr}")
        if isinstance(o, VFunc) and attr == "__name__":
            return VStr(o.name or "f")
        if o is NONE and self.spec_mode:
            raise SpecUndefined(attr)
        return VBoundExt(o, attr)

    def infer_field_from_init(self, o, attr):
        """a field the contract does not declare (e.g. one a change has just introduced) but that the
        class's constructor initialises with a literal: an arbitrary value of that literal's type
        (over-approximation of every state the object can be in)"""
        cd = self.reg.repo_classes.get(o.cls)
        cd0 = cd
        n = 0
        while cd is not None and n < 6:
            from .cluster import ctor_closure
            for mnode in ctor_closure(cd.node):
                mname = mnode.name
                m = cd.methods.get(mname)
                if m is None:
                    continue
                for node in ast.walk(m.node):
                    if isinstance(node, ast.Assign) and len(node.targets) == 1 and isinstance(node.targets[0], ast.Attribute) \
                            and isinstance(node.targets[0].value, ast.Name) and node.targets[0].value.id == "self" \
                            and node.targets[0].attr == attr and isinstance(node.value, ast.Constant):
                        c = node.value.value
                        if c is None:
                            self.reg.note(f"{o.cls}.{attr}: not declared by the contract; None or some object")
                            return VOpt(z3.Bool(self.ctx.namer(f"self.{attr}_isnone")), VObj("Undeclared_" + attr))
                        t = "bool" if isinstance(c, bool) else "int" if isinstance(c, int) else "real" if isinstance(c, float) \
                            else "str" if isinstance(c, str) else "bytes" if isinstance(c, bytes) else None
                        if t is not None:
                            self.reg.note(f"{o.cls}.{attr}: not declared by the contract; arbitrary {t} (initialised with a literal in {mname})")
                            return self.fresh(t, f"self.{attr}")
                    if isinstance(node, ast.Assign) and len(node.targets) == 1 and isinstance(node.targets[0], ast.Attribute) \
                            and isinstance(node.targets[0].value, ast.Name) and node.targets[0].value.id == "self" \
                            and node.targets[0].attr == attr:
                        t = self.infer_container_type(cd0, attr, node.value)
                        if t is not None:
                            self.reg.note(f"{o.cls}.{attr}: not declared by the contract; arbitrary {t} (an empty container in "
                                          f"{mname}; element types guessed from the stores in the class)")
                            return self.fresh(t, f"self.{attr}")
            cd = self.base_classdef(cd)
            n += 1
        # assigned somewhere in the class but neither declared by the contract nor initialised with a
        # literal: the function reads state the contract knows nothing about
        cd = self.reg.repo_classes.get(o.cls)
        if cd is not None:
            for m in cd.methods.values():
                for node in ast.walk(m.node):
                    if isinstance(node, (ast.Assign, ast.AugAssign, ast.AnnAssign)):
                        tgts = node.targets if isinstance(node, ast.Assign) else [node.target]
                        for tg in tgts:
                            if isinstance(tg, ast.Attribute) and isinstance(tg.value, ast.Name) and tg.value.id == "self" \
                                    and tg.attr == attr:
                                raise OutOfSubset(f"field {o.cls}.{attr} is read but not declared by the contract")
        return None

    # -- element types of a container field that a change has just introduced (the contract cannot declare it)
    def infer_container_type(self, cd, attr, init):
        """`self.<attr> = {}` / [] / set() / deque() in the constructor: the container starts empty; its element
        types are guessed syntactically from every store `self.<attr>[K] = V`, `.append(V)`, `.add(V)`,
        `.setdefault(K, V)` in the class.  A wrong or missing guess ends as a type clash or out-of-reach, never as a
        proof: the value is an ARBITRARY container of that type (an over-approximation of every reachable state)."""
        kind = None
        if isinstance(init, ast.Dict) and not init.keys:
            kind = "dict"
        elif isinstance(init, ast.List) and not init.elts:
            kind = "seq"
        elif isinstance(init, ast.Call) and not init.args and not init.keywords and isinstance(init.func, ast.Name) \
                and init.func.id in ("dict", "list", "set", "deque"):
            kind = {"dict": "dict", "list": "seq", "set": "set", "deque": "seq"}[init.func.id]
        elif isinstance(init, ast.Call) and not init.args and isinstance(init.func, ast.Attribute) and init.func.attr == "deque":
            kind = "seq"
        if kind is None:
            return None
        kts, vts = set(), set()

        def is_field(e):
            return isinstance(e, ast.Attribute) and e.attr == attr and isinstance(e.value, ast.Name) and e.value.id == "self"

        for m in cd.methods.values():
            for node in ast.walk(m.node):
                if isinstance(node, ast.Assign):
                    for tg in node.targets:
                        if isinstance(tg, ast.Subscript) and is_field(tg.value):
                            kts.add(self.guess_type(tg.slice, m, cd, attr))
                            vts.add(self.guess_type(node.value, m, cd, attr))
                elif isinstance(node, ast.Call) and isinstance(node.func, ast.Attribute) and is_field(node.func.value):
                    if node.func.attr in ("append", "add", "appendleft") and len(node.args) == 1:
                        vts.add(self.guess_type(node.args[0], m, cd, attr))
                    elif node.func.attr == "setdefault" and len(node.args) == 2:
                        kts.add(self.guess_type(node.args[0], m, cd, attr))
                        vts.add(self.guess_type(node.args[1], m, cd, attr))
        if None in kts or None in vts or len(vts) != 1:
            return None
        vt = next(iter(vts))
        if kind == "dict":
            if len(kts) != 1:
                return None
            return f"dict[{next(iter(kts))},{vt}]"
        return f"{kind}[{vt}]"

    def guess_type(self, e, m, cd, attr, depth=0):
        if depth > 4:
            return None
        if isinstance(e, ast.Constant):
            c = e.value
            return "bool" if isinstance(c, bool) else "int" if isinstance(c, int) else "real" if isinstance(c, float) \
                else "str" if isinstance(c, str) else "bytes" if isinstance(c, bytes) else None
        if isinstance(e, ast.JoinedStr):
            return "str"
        if isinstance(e, ast.Tuple):
            ts = [self.guess_type(x, m, cd, attr, depth + 1) for x in e.elts]
            return None if None in ts else "tuple[" + ",".join(ts) + "]"
        if isinstance(e, ast.BinOp) and isinstance(e.op, ast.Mod) and isinstance(e.left, ast.Constant) \
                and isinstance(e.left.value, (str, bytes)):
            return "str" if isinstance(e.left.value, str) else "bytes"
        if isinstance(e, ast.BinOp) and isinstance(e.op, (ast.Add, ast.Sub, ast.Mult)):
            a, b = self.guess_type(e.left, m, cd, attr, depth + 1), self.guess_type(e.right, m, cd, attr, depth + 1)
            return a if a == b and a in ("int", "str", "bytes", "real") else None
        c = self.reg.contracts.get(m.key)
        if isinstance(e, ast.Name):
            if c is not None and e.id in c.params:
                return c.params[e.id]
            got = set()
            for node in ast.walk(m.node):
                if isinstance(node, ast.Assign) and len(node.targets) == 1 and isinstance(node.targets[0], ast.Name) \
                        and node.targets[0].id == e.id:
                    # a read of the field itself (e.g. x = self.<attr>.get(k)) says nothing new
                    if any(isinstance(n, ast.Attribute) and n.attr == attr for n in ast.walk(node.value)):
                        continue
                    got.add(self.guess_type(node.value, m, cd, attr, depth + 1))
            return next(iter(got)) if len(got) == 1 else None
        if isinstance(e, ast.Attribute) and isinstance(e.value, ast.Name) and e.value.id == "self":
            if c is not None and c.self_fields and e.attr in c.self_fields:
                return c.self_fields[e.attr]
            return None
        if isinstance(e, ast.Call):
            if isinstance(e.func, ast.Name):
                if e.func.id in ("len", "int"):
                    return "int"
                if e.func.id == "str":
                    return "str"
                if e.func.id == "bytes":
                    return "bytes"
                try:
                    f = self.module_name(m.module, e.func.id)
                except OutOfSubset:
                    f = None
                if isinstance(f, VFunc) and f.fdef is not None:
                    cc = self.reg.contracts.get(f.fdef.key)
                    if cc is not None and cc.returns:
                        return cc.returns
            if isinstance(e.func, ast.Attribute) and isinstance(e.func.value, ast.Name) and e.func.value.id == "self":
                fm = self.find_method(cd.name, e.func.attr)
                cc = self.reg.contracts.get(fm.key) if fm is not None else None
                if cc is not None and cc.returns:
                    return cc.returns
        return None

    def base_classdef(self, cd):
        for b in cd.bases:
            nm = b.split(".")[-1]
            v = None
            try:
                v = self.module_name(cd.module, nm)
            except OutOfSubset:
                v = None
            if isinstance(v, VClass) and v.cdef is not None:
                return v.cdef
        return None

    def find_method(self, clsname, attr):
        cd = self.reg.repo_classes.get(clsname)
        seen = 0
        while cd is not None and seen < 10:
            if attr in cd.methods:
                return cd.methods[attr]
            cd = self.base_classdef(cd)
            seen += 1
        return None

    def e_Tuple(self, e, fr):
        return VTuple(self.eval_elts(e.elts, fr))

    def e_List(self, e, fr):
        return VList(self.eval_elts(e.elts, fr))

    def eval_elts(self, elts, fr):
        out = []
        for x in elts:
            if isinstance(x, ast.Starred):
                v = self.force(self.eval(x.value, fr))
                if isinstance(v, (VList, VTuple)):
                    out.extend(v.items)
                else:
                    raise OutOfSubset("starred symbolic sequence")
            else:
                out.append(self.eval(x, fr))
        return out

    def e_Set(self, e, fr):
        raise OutOfSubset("set literal")

    def e_Dict(self, e, fr):
        d = {}
        for k, v in zip(e.keys, e.values):
            if k is None:
                raise OutOfSubset("dict unpacking")
            kv = self.eval(k, fr)
            ck = self.concrete(kv)
            if ck is _NOCONST:
                raise OutOfSubset("dict literal with symbolic key")
            d[ck] = self.eval(v, fr)
        return VDict(d)

    def concrete(self, v):
        if isinstance(v, VStr):
            z = z3.simplify(v.z)
            if z3.is_string_value(z):
                s = z.as_string()
                s = decode_z3_string(s)
                return s if v.kind == "str" else bytes(ord(c) for c in s)
            return _NOCONST
        if isinstance(v, VInt):
            z = z3.simplify(v.z)
            return z.as_long() if z3.is_int_value(z) else _NOCONST
        if isinstance(v, VBool):
            z = z3.simplify(v.z)
            return True if z3.is_true(z) else False if z3.is_false(z) else _NOCONST
        if v is NONE:
            return None
        return _NOCONST

    def e_JoinedStr(self, e, fr):
        parts = []
        for p in e.values:
            if isinstance(p, ast.Constant):
                parts.append(z3.StringVal(p.value))
            else:
                v = self.force(self.eval(p.value, fr))
                if isinstance(v, VJson) and getattr(self.reg, "percent_json", False) and p.format_spec is None \
                        and p.conversion in (-1, 115):
                    # opt-in: str() of a JSON value never raises and is a function of the value: exact for str and int,
                    # an uninterpreted function of the value otherwise (no fork)
                    from .models import uf
                    parts.append(z3.If(J.is_jstr(v.z), J.s(v.z), z3.If(J.is_jint(v.z), int_to_str(J.i(v.z)),
                                                                         uf("json_str", J, StringS)(v.z))))
                    continue
                spec_s = None
                if p.format_spec is not None and all(isinstance(x, ast.Constant) for x in p.format_spec.values):
                    spec_s = "".join(x.value for x in p.format_spec.values)
                import re as _re
                if isinstance(v, VInt) and spec_s and _re.fullmatch(r"0(\d+)x", spec_s) and len(e.values) == 1:
                    from .models import uf
                    n = int(spec_s[1:-1])
                    r = VStr(uf("hexfmt", IntS, IntS, StringS)(v.z, z3.IntVal(n)), "str")
                    r.hex_fmt = (v.z, n)
                    return r
                plain = p.format_spec is None or spec_s == ""
                if isinstance(v, VStr) and v.kind == "str" and p.conversion in (-1, 115) and (plain or spec_s == "s"):
                    parts.append(v.z)
                elif isinstance(v, VInt) and p.conversion in (-1, 115, 114) and (plain or (spec_s == "d" and p.conversion == -1)):
                    parts.append(int_to_str(v.z))     # str(int) == repr(int) == format(int, "d")
                else:
                    self.ctx.note_imprecise(f"f-string field {ast.unparse(p)!r}")
                    parts.append(z3.String(self.ctx.namer("fmt")))
        if not parts:
            return VStr("")
        return VStr(parts[0] if len(parts) == 1 else z3.Concat(*parts), "str")

    def e_Yield(self, e, fr):
        # generators are outside the subset; a property module may give `yield` a meaning (the
        # inlineCallbacks protocol) through reg.yield_model(it, node, fr) or reg.ext_models["yield"]
        h2 = getattr(self.reg, "yield_model", None)
        if h2 is not None:
            return h2(self, e, fr)
        if getattr(self.reg, "lazy_generators", False):
            v = self.eval(e.value, fr) if e.value is not None else NONE
            f0 = fr
            while f0 is not None and getattr(f0, "on_yield", None) is None:
                f0 = f0.parent
            self.ctx.event("yield", v, fr.fdef.key if fr.fdef is not None else "?")     # every yield is recorded in the trace
            if f0 is not None:
                return f0.on_yield(v)        # consumed by a for loop: its body runs now (for_generator)
            return NONE
        h = self.reg.ext_models.get("yield")
        if h is None:
            raise OutOfSubset(f"expression Yield at line {getattr(e, 'lineno', '?')}")
        return h(self, self.eval(e.value, fr) if e.value is not None else NONE, fr)

    def e_Lambda(self, e, fr):
        fd = source.FuncDef(fr.module, "<lambda>", e, None, ast.unparse(e))
        return VFunc(fd, None, fr, "<lambda>")

    def e_IfExp(self, e, fr):
        if self.spec_mode:
            return self.ite(self.truth(self.eval(e.test, fr)), self.eval(e.body, fr), self.eval(e.orelse, fr))
        if self.ctx.branch(self.truth(self.eval(e.test, fr))):
            return self.eval(e.body, fr)
        return self.eval(e.orelse, fr)

    def e_BoolOp(self, e, fr):
        if self.spec_mode:
            # contract expressions are pure: no short-circuit forking (needed under quantifiers).
            # An operand that is undefined where an earlier operand guards it (x is not None and
            # x.f == ...) becomes an unconstrained Bool: it cannot help a proof.
            ts = []
            for x in e.values:
                try:
                    ts.append(self.truth(self.eval(x, fr)))
                except SpecUndefined:
                    ts.append(z3.Bool(self.ctx.namer("undef")))
            return VBool(z3.And(ts) if isinstance(e.op, ast.And) else z3.Or(ts))
        last = None
        for i, x in enumerate(e.values):
            last = self.eval(x, fr)
            if i == len(e.values) - 1:
                return last
            t = self.truth(last)
            if isinstance(e.op, ast.And):
                if not self.ctx.branch(t):
                    return last
            else:
                if self.ctx.branch(t):
                    return last
        return last

    def e_UnaryOp(self, e, fr):
        v = self.force(self.eval(e.operand, fr))
        if isinstance(e.op, ast.Not):
            return VBool(z3.Not(self.truth(v)))
        if isinstance(e.op, ast.USub):
            if isinstance(v, VInt):
                return VInt(-v.z)
            if isinstance(v, VReal):
                return VReal(-v.z)
        raise OutOfSubset("unary op")

    def e_BinOp(self, e, fr):
        a = self.force(self.eval(e.left, fr))
        b = self.force(self.eval(e.right, fr))
        return self.binop(e.op, a, b)

    def binop(self, op, a, b):
        a = self.force(a)
        b = self.force(b)
        if isinstance(a, VJson) or isinstance(b, VJson):
            a, b = self.json_narrow(a), self.json_narrow(b)
        if isinstance(a, VBool):
            a = VInt(self._num(a))
        if isinstance(b, VBool) and not isinstance(op, ast.Mod):
            b = VInt(self._num(b))
        if isinstance(op, ast.Add):
            if isinstance(a, VInt) and isinstance(b, VInt):
                return VInt(a.z + b.z)
            if isinstance(a, (VInt, VReal)) and isinstance(b, (VInt, VReal)):
                return VReal(self._real(a) + self._real(b))
            if isinstance(a, VStr) and isinstance(b, VStr):
                if a.kind != b.kind:
                    self.raise_("TypeError", VStr("concat str/bytes"))
                return VStr(z3.Concat(a.z, b.z), a.kind)
            if isinstance(a, VList) and isinstance(b, VList):
                return VList(a.items + b.items)
            if isinstance(a, VTuple) and isinstance(b, VTuple):
                return VTuple(a.items + b.items)
            if isinstance(a, VSeq) and isinstance(b, VList) and len(b.items) == 1:
                from .models import seq_append
                return VSeq(seq_append(self, a.z, to_z3(b.items[0], a.elem)), a.elem)
            if isinstance(a, (VSeq, VList)) and isinstance(b, (VSeq, VList)):
                el = a.elem if isinstance(a, VSeq) else b.elem
                t = T("seq", [el])
                return VSeq(z3.Concat(to_z3(a, t), to_z3(b, t)), el)
            if (isinstance(a, VStr) and isinstance(b, (VInt, VReal))) or (isinstance(b, VStr) and isinstance(a, (VInt, VReal))) \
                    or a is NONE or b is NONE:
                self.raise_("TypeError", VStr("unsupported operand +"))
        if isinstance(op, ast.Sub):
            if isinstance(a, VInt) and isinstance(b, VInt):
                return VInt(a.z - b.z)
            if isinstance(a, (VInt, VReal)) and isinstance(b, (VInt, VReal)):
                return VReal(self._real(a) - self._real(b))
            if isinstance(a, VSet) and isinstance(b, VSet):
                return VSet(z3.SetDifference(a.z, b.z), a.elem)
        if isinstance(op, ast.Mult):
            if isinstance(a, VInt) and isinstance(b, VInt):
                return VInt(a.z * b.z)
            if isinstance(a, (VInt, VReal)) and isinstance(b, (VInt, VReal)):
                return VReal(self._real(a) * self._real(b))
        if isinstance(op, ast.Pow):
            ca, cb = self.concrete(a), self.concrete(b)
            if isinstance(ca, int) and isinstance(cb, int) and cb >= 0:
                return VInt(ca ** cb)
        if isinstance(op, (ast.FloorDiv, ast.Mod)) and isinstance(a, VInt) and isinstance(b, VInt):
            if not self.spec_mode and self.ctx.branch(b.z == 0):
                self.raise_("ZeroDivisionError")
            # python floor semantics; z3 div/mod are euclidean: equal for positive divisor
            cb = self.concrete(b)
            if not (isinstance(cb, int) and cb > 0):
                self.ctx.assume(b.z > 0)
                self.reg.note("integer // and % only modelled for positive divisors")
            return VInt(a.z / b.z) if isinstance(op, ast.FloorDiv) else VInt(a.z % b.z)
        if isinstance(op, (ast.RShift, ast.LShift)) and isinstance(a, VInt) and isinstance(b, VInt):
            # shifts by a constant: floor division / multiplication by 2**k (exact, also for negative a)
            cb = self.concrete(b)
            if isinstance(cb, int) and 0 <= cb <= 256:
                return VInt(a.z / (2 ** cb)) if isinstance(op, ast.RShift) else VInt(a.z * (2 ** cb))
        if isinstance(op, ast.Div) and isinstance(a, (VInt, VReal)) and isinstance(b, (VInt, VReal)):
            if self.ctx.branch(self._real(b) == 0):
                self.raise_("ZeroDivisionError")
            return VReal(self._real(a) / self._real(b))
        if isinstance(op, ast.Mod) and isinstance(a, VStr):
            return self.percent_format(a, b)
        if isinstance(op, ast.BitOr) and isinstance(a, VSet) and isinstance(b, VSet):
            return VSet(z3.SetUnion(a.z, b.z), a.elem)
        if isinstance(op, ast.BitAnd) and isinstance(a, VSet) and isinstance(b, VSet):
            return VSet(z3.SetIntersect(a.z, b.z), a.elem)
        raise OutOfSubset(f"binop {type(op).__name__} on {a!r}, {b!r}")

    def _real(self, v):
        return z3.ToReal(v.z) if isinstance(v, VInt) else v.z

    def json_narrow(self, v):
        """fork a JSON value into its Python kind"""
        if not isinstance(v, VJson):
            return v
        z = v.z
        i = self.ctx.choose([J.is_jnull(z), J.is_jbool(z), J.is_jint(z), J.is_jreal(z), J.is_jstr(z),
                             J.is_jlist(z), J.is_jdict(z)], "jsonkind")
        if i == 0:
            return NONE
        if i == 1:
            return VBool(J.b(z))
        if i == 2:
            return VInt(J.i(z))
        if i == 3:
            return VReal(J.r(z))
        if i == 4:
            return VStr(J.s(z), "str")
        if i == 5:
            return VSeq(J.l(z), "json")
        return VJsonDict(z)

    def percent_format(self, fmt, arg):
        cf = self.concrete(fmt)
        args = arg.items if isinstance(arg, VTuple) else [arg]
        if isinstance(cf, (str, bytes)):
            s = cf if isinstance(cf, str) else "".join(chr(b) for b in cf)
            # split on simple %d / %s directives
            import re as _re
            toks = _re.split(r"(%[ds])", s)
            out, ai = [], 0
            ok = True
            for tk in toks:
                if tk in ("%d", "%s"):
                    if ai >= len(args):
                        ok = False
                        break
                    a = self.force(args[ai])
                    ai += 1
                    if isinstance(a, VJson) and getattr(self.reg, "percent_json", False):
                        # opt-in: a JSON value as %-argument is narrowed to its Python kind; %d of a non-number is CPython's TypeError
                        a = self.json_narrow(a)
                        if tk == "%d" and not isinstance(a, (VInt, VBool, VReal)):
                            self.raise_("TypeError", VStr("%d format: a real number is required"))
                    if tk == "%d" and isinstance(a, VInt):
                        out.append(int_to_str(a.z))
                    elif tk == "%s" and isinstance(a, VStr) and a.kind == fmt.kind:
                        out.append(a.z)
                    elif tk == "%s" and isinstance(a, VInt):
                        out.append(int_to_str(a.z))
                    else:
                        ok = False
                        break
                elif "%" in tk:
                    ok = False
                    break
                elif tk:
                    out.append(z3.StringVal(tk))
            if ok and ai == len(args):
                if not out:
                    return VStr(z3.StringVal(""), fmt.kind)
                return VStr(out[0] if len(out) == 1 else z3.Concat(*out), fmt.kind)
        self.ctx.note_imprecise("%-format with an unmodelled directive or argument")
        return VStr(z3.String(self.ctx.namer("fmt")), fmt.kind)

    def e_Compare(self, e, fr):
        left = self.eval(e.left, fr)
        res = None
        for op, right_e in zip(e.ops, e.comparators):
            right = self.eval(right_e, fr)
            r = self.compare(op, left, right)
            res = r if res is None else z3.And(res, r)
            left = right
            if len(e.ops) > 1 and not isinstance(res, bool):
                # short-circuit chains are pure here
                pass
        return VBool(res)

    def compare(self, op, a, b):
        if isinstance(op, ast.Eq):
            return self.eq(a, b)
        if isinstance(op, ast.NotEq):
            return z3.Not(self.eq(a, b))
        if isinstance(op, ast.Is):
            return self.same(a, b)
        if isinstance(op, ast.IsNot):
            return z3.Not(self.same(a, b))
        if isinstance(op, ast.In):
            return self.contains(b, a)
        if isinstance(op, ast.NotIn):
            return z3.Not(self.contains(b, a))
        a = self.force(a)
        b = self.force(b)
        if isinstance(a, VJson) or isinstance(b, VJson):
            a, b = self.json_narrow(a), self.json_narrow(b)
        num = (VInt, VReal, VBool)
        if isinstance(a, num) and isinstance(b, num):
            if isinstance(a, VReal) or isinstance(b, VReal):
                x = self._real(a) if not isinstance(a, VBool) else z3.ToReal(self._num(a))
                y = self._real(b) if not isinstance(b, VBool) else z3.ToReal(self._num(b))
            else:
                x, y = self._num(a), self._num(b)
        elif isinstance(a, VStr) and isinstance(b, VStr) and a.kind == b.kind:
            x, y = a.z, b.z
        elif isinstance(a, VTuple) and isinstance(b, VTuple):
            return self.tuple_cmp(op, a, b)
        elif isinstance(a, VSet) and isinstance(b, VSet) and isinstance(op, (ast.LtE,)):
            if a.z is None:                     # the still untyped empty set(): a subset of anything
                return z3.BoolVal(True)
            if b.z is None:                     # S <= set()  iff  S is empty
                return a.z == z3.K(a.z.sort().domain(), z3.BoolVal(False))
            return z3.IsSubset(a.z, b.z)
        else:
            if isinstance(a, (VStr, VInt, VReal, VBool, VNoneT, VSeq, VList, VJsonDict, VDict)) and \
               isinstance(b, (VStr, VInt, VReal, VBool, VNoneT, VSeq, VList, VJsonDict, VDict)):
                if isinstance(a, (VSeq, VList)) and isinstance(b, (VSeq, VList)):
                    raise OutOfSubset("list ordering")
                self.raise_("TypeError", VStr("'<' not supported between these types"))
            raise OutOfSubset(f"ordering of {a!r} and {b!r}")
        if isinstance(op, ast.Lt):
            return x < y
        if isinstance(op, ast.LtE):
            return x <= y
        if isinstance(op, ast.Gt):
            return x > y
        if isinstance(op, ast.GtE):
            return x >= y
        raise OutOfSubset("compare op")

    def tuple_cmp(self, op, a, b):
        # lexicographic, concrete arity
        n = min(len(a.items), len(b.items))
        strict = isinstance(op, (ast.Lt, ast.Gt))
        less = isinstance(op, (ast.Lt, ast.LtE))
        res = z3.BoolVal((len(a.items) < len(b.items)) if less else (len(a.items) > len(b.items))) if len(a.items) != len(b.items) else z3.BoolVal(not strict)
        for i in reversed(range(n)):
            lt = self.compare(ast.Lt() if less else ast.Gt(), a.items[i], b.items[i])
            eq = self.eq(a.items[i], b.items[i])
            res = z3.Or(lt, z3.And(eq, res))
        return res

    def contains(self, cont, x):
        cont = self.force(cont)
        if isinstance(cont, (VDict, VSet, VMap)) or getattr(cont, "hashed", False):
            # membership in a hashed container hashes the probe first
            xx = self.force(x)
            if isinstance(xx, VJson):
                xx = self.json_narrow(xx)
                x = xx
            if isinstance(xx, (VSeq, VList, VJsonDict, VDict, VSet, VMap)):
                self.raise_("TypeError", VStr("unhashable type"))
        if isinstance(cont, (VList, VTuple)):
            return z3.Or([self.eq(x, y) for y in cont.items] + [z3.BoolVal(False)])
        if isinstance(cont, VDict):
            cx = self.concrete(self.force(x)) if not isinstance(x, VJson) else _NOCONST
            if cx is not _NOCONST:
                return z3.BoolVal(cx in cont.d)
            return z3.Or([self.eq(x, self.const(k)) for k in cont.d] + [z3.BoolVal(False)])
        if isinstance(cont, VStr):
            x = self.force(x)
            if isinstance(x, VJson):
                x = self.json_narrow(x)
            if isinstance(x, VStr) and x.kind == cont.kind:
                return z3.Contains(cont.z, x.z)
            if isinstance(x, VInt) and cont.kind == "bytes":
                return z3.Contains(cont.z, z3.StrFromCode(x.z))
            self.raise_("TypeError", VStr("'in <string>' requires string as left operand"))
        if isinstance(cont, VSeq):
            x = self.force(x)
            return z3.Contains(cont.z, z3.Unit(to_z3(x, cont.elem)))
        if isinstance(cont, VSet):
            x = self.force(x)
            if cont.z is None:
                return z3.BoolVal(False)
            return z3.Select(cont.z, to_z3(x, cont.elem))
        if isinstance(cont, VMap):
            x = self.force(x)
            return z3.Select(cont.present, to_z3(x, cont.kt))
        if isinstance(cont, VJson):
            c2 = self.json_narrow(cont)
            if isinstance(c2, VJson):
                raise OutOfSubset("json narrow")
            return self.contains(c2, x)
        if isinstance(cont, VJsonDict):
            x = self.force(x)
            if isinstance(x, VJson):
                x = self.json_narrow(x)
            if isinstance(x, VStr) and x.kind == "str":
                return OJ.is_present(z3.Select(J.d(cont.z), x.z))
            if isinstance(x, (VSeq, VList, VJsonDict, VDict)):
                self.raise_("TypeError", VStr("unhashable type"))
            return z3.BoolVal(False)
        if cont is NONE or isinstance(cont, (VInt, VBool, VReal)):
            self.raise_("TypeError", VStr("argument is not iterable"))
        raise OutOfSubset(f"'in' on {cont!r}")

    # ---- subscripts
    def e_Subscript(self, e, fr):
        o = self.force(self.eval(e.value, fr))
        if isinstance(e.slice, ast.Slice):
            lo = self.eval(e.slice.lower, fr) if e.slice.lower is not None else None
            hi = self.eval(e.slice.upper, fr) if e.slice.upper is not None else None
            if e.slice.step is not None:
                raise OutOfSubset("slice step")
            return self.getslice(o, lo, hi)
        k = self.eval(e.slice, fr)
        return self.getitem(o, k)

    def norm_index(self, idx, length):
        """python slice index normalisation (None handled by the caller)"""
        i = idx
        return z3.If(i < 0, z3.If(i + length < 0, 0, i + length), z3.If(i > length, length, i))

    def getslice(self, o, lo, hi):
        if isinstance(o, VJson):
            o = self.json_narrow(o)
        if isinstance(o, (VStr, VSeq)):
            L = z3.Length(o.z)
            lo = self.force(lo) if lo is not None else None
            hi = self.force(hi) if hi is not None else None
            for x in (lo, hi):
                if x is not None and x is not NONE and not isinstance(x, VInt):
                    if isinstance(x, VBool):
                        continue
                    self.raise_("TypeError", VStr("slice indices must be integers"))
            a = z3.IntVal(0) if lo is None or lo is NONE else self.norm_index(self._num(lo), L)
            b = L if hi is None or hi is NONE else self.norm_index(self._num(hi), L)
            n = z3.If(b - a < 0, 0, b - a)
            z = z3.SubString(o.z, a, n) if isinstance(o, VStr) else z3.Extract(o.z, a, n)
            z = z3.simplify(z)
            return VStr(z, o.kind) if isinstance(o, VStr) else VSeq(z, o.elem)
        if isinstance(o, (VList, VTuple)):
            cl = self.concrete(self.force(lo)) if lo is not None else None
            ch = self.concrete(self.force(hi)) if hi is not None else None
            if cl is _NOCONST or ch is _NOCONST:
                raise OutOfSubset("symbolic slice of concrete list")
            items = o.items[cl:ch]
            return VList(items) if isinstance(o, VList) else VTuple(items)
        if isinstance(o, VSplit):
            cl = self.concrete(self.force(lo)) if lo is not None else None
            if cl == 1 and hi is None:
                raise OutOfSubset("split()[1:]")
        if o is NONE or isinstance(o, (VInt, VBool, VReal)):
            self.raise_("TypeError", VStr("not subscriptable"))
        raise OutOfSubset(f"slice of {o!r}")

    def getitem(self, o, k):
        k = self.force(k)
        if isinstance(o, VJson):
            o = self.json_narrow(o)
        if isinstance(k, VJson):
            k = self.json_narrow(k)
        if isinstance(o, VJsonDict):
            if isinstance(k, (VSeq, VList, VJsonDict, VDict)):
                self.raise_("TypeError", VStr("unhashable type"))
            if not (isinstance(k, VStr) and k.kind == "str"):
                self.raise_("KeyError", k)
            ent = z3.Select(J.d(o.z), k.z)
            if self.ctx.branch(OJ.is_absent(ent), "keyerror"):
                self.raise_("KeyError", k)
            return VJson(OJ.v(ent))
        if isinstance(o, VDict):
            ck = self.concrete(k)
            if ck is _NOCONST:
                # symbolic key into a concrete dict
                for key, val in o.d.items():
                    if self.ctx.branch(self.eq(k, self.const(key))):
                        return val
                self.raise_("KeyError", k)
            if ck not in o.d:
                self.raise_("KeyError", k)
            return o.d[ck]
        if isinstance(o, VMap):
            kz = to_z3(k, o.kt)
            if getattr(o, "default_empty", False) and o.vt.kind in ("seq", "list", "deque"):
                # collections.defaultdict(deque/list).__getitem__: a missing key is inserted with an empty value
                cur = z3.If(z3.Select(o.present, kz), z3.Select(o.val, kz), z3.Empty(sort_of(o.vt)))
                if self.spec_mode:
                    return from_z3(cur, o.vt)
                o.present = z3.Store(o.present, kz, True)
                o.val = z3.Store(o.val, kz, cur)
                r = from_z3(cur, o.vt)
                r.origin = (o, kz)       # element holder: mutations are written back (see models.call_method)
                return r
            if not self.spec_mode and self.ctx.branch(z3.Not(z3.Select(o.present, kz)), "keyerror"):
                self.raise_("KeyError", k)
            r = from_z3(z3.Select(o.val, kz), o.vt)
            if not self.spec_mode and isinstance(r, VSet):
                r.origin = (o, kz)       # d[k].add(x): the set is the map's value, mutations are written back (models.call_method)
            return r
        if isinstance(o, (VList, VTuple)):
            ck = self.concrete(k)
            if ck is _NOCONST:
                if not isinstance(k, VInt):
                    self.raise_("TypeError", VStr("indices must be integers"))
                n = len(o.items)
                for i in range(n):
                    if self.ctx.branch(z3.Or(k.z == i, k.z == i - n)):
                        return o.items[i]
                self.raise_("IndexError")
            if not isinstance(ck, int):
                self.raise_("TypeError", VStr("indices must be integers"))
            if not -len(o.items) <= ck < len(o.items):
                self.raise_("IndexError")
            return o.items[ck]
        if isinstance(o, VSplit):
            ck = self.concrete(k)
            s, sep = o.s, o.sep
            if ck == 0:
                idx = z3.IndexOf(s, sep, 0)
                return VStr(z3.If(idx < 0, s, z3.SubString(s, 0, idx)), o.kind)
            if ck == -1:
                idx = z3.LastIndexOf(s, sep)
                return VStr(z3.If(idx < 0, s, z3.SubString(s, idx + z3.Length(sep), z3.Length(s))), o.kind)
            if ck == 1:
                idx = z3.IndexOf(s, sep, 0)
                if self.ctx.branch(idx < 0):
                    self.raise_("IndexError")
                rest = z3.SubString(s, idx + z3.Length(sep), z3.Length(s))
                idx2 = z3.IndexOf(rest, sep, 0)
                lim = getattr(o, "maxsplit", None)
                if lim == 1:
                    return VStr(rest, o.kind)
                return VStr(z3.If(idx2 < 0, rest, z3.SubString(rest, 0, idx2)), o.kind)
            raise OutOfSubset("split()[k]")
        if isinstance(o, (VStr, VSeq)):
            if isinstance(k, VBool):
                k = VInt(self._num(k))
            if not isinstance(k, VInt):
                self.raise_("TypeError", VStr("indices must be integers"))
            L = z3.Length(o.z)
            i = z3.If(k.z < 0, k.z + L, k.z)
            if not self.spec_mode and self.ctx.branch(z3.Or(i < 0, i >= L), "indexerror"):
                self.raise_("IndexError")
            if isinstance(o, VSeq):
                return from_z3(o.z[i], o.elem)
            if o.kind == "bytes":
                return VInt(z3.StrToCode(z3.SubString(o.z, i, 1)))
            return VStr(z3.SubString(o.z, i, 1), "str")
        if o is NONE or isinstance(o, (VInt, VBool, VReal)):
            self.raise_("TypeError", VStr("not subscriptable"))
        raise OutOfSubset(f"subscript of {o!r}")

    def setitem(self, o, k, v):
        k = self.force(k)
        if isinstance(o, VDict):
            ck = self.concrete(k)
            if ck is _NOCONST:
                raise OutOfSubset("symbolic key store into concrete dict")
            o.d[ck] = v
            return
        if isinstance(o, VMap):
            kz = to_z3(k, o.kt)
            o.present = z3.Store(o.present, kz, True)
            o.val = z3.Store(o.val, kz, to_z3(v, o.vt))
            return
        if isinstance(o, VList):
            ck = self.concrete(k)
            if isinstance(ck, int) and -len(o.items) <= ck < len(o.items):
                o.items[ck] = v
                return
        raise OutOfSubset(f"item store on {o!r}")

    def delitem(self, o, k):
        k = self.force(k)
        if isinstance(o, VMap):
            kz = to_z3(k, o.kt)
            if self.ctx.branch(z3.Not(z3.Select(o.present, kz))):
                self.raise_("KeyError", k)
            o.present = z3.Store(o.present, kz, False)
            return
        if isinstance(o, VDict):
            ck = self.concrete(k)
            if ck is not _NOCONST:
                if ck not in o.d:
                    self.raise_("KeyError", k)
                del o.d[ck]
                return
        raise OutOfSubset(f"del item on {o!r}")

    # ---- comprehensions (over concrete-length iterables only; symbolic ones need a model)
    def e_ListComp(self, e, fr):
        r = self.comp(e, fr)
        return VSeq(r.z, r.elem) if isinstance(r, VSeqResult) else VList(r)

    def e_GeneratorExp(self, e, fr):
        r = self.comp(e, fr)
        return VSeq(r.z, r.elem) if isinstance(r, VSeqResult) else VList(r)

    def e_SetComp(self, e, fr):
        raise OutOfSubset("set comprehension")

    def comp(self, e, fr):
        if len(e.generators) != 1:
            raise OutOfSubset("nested comprehension")
        g = e.generators[0]
        it = self.force(self.eval(g.iter, fr))
        it = self.iterable_of(it)
        if isinstance(it, VDict):
            it = VList([self.const(k) for k in it.d])
        if not isinstance(it, (VList, VTuple)):
            # property modules may model a comprehension over a symbolic collection (e.g. one boundary
            # call per element); the hook returns None when the shape is not the one it models
            h = self.reg.ext_models.get("comprehension")
            if h is not None:
                r = h(self, e, g, it, fr)
                if r is not None:
                    return r
        if isinstance(it, VSeq):
            return self.comp_map(e, g, it, fr)
        if not isinstance(it, (VList, VTuple)):
            raise OutOfSubset(f"comprehension over {it!r}")
        out = []
        sub = Frame(fr.fdef, fr.module, fr.selfobj, fr)
        for x in it.items:
            self.assign(g.target, x, sub)
            ok = True
            for c in g.ifs:
                if not self.ctx.branch(self.truth(self.eval(c, sub))):
                    ok = False
                    break
            if ok:
                out.append(self.eval(e.elt, sub))
        return out

    def comp_pure(self, e, g, xs, fr):
        """[expr(x) for x in xs] over a sequence of symbolic length where expr is a pure expression of x (no calls into
        repository code, no effects): r with len(r) == len(xs) and r[i] == expr(xs[i]) for all i.  None if expr is not that."""
        try:
            x = z3.Const(self.ctx.namer("x!cmp"), sort_of(xs.elem))
        except Exception:
            return None
        sub = Frame(fr.fdef, fr.module, fr.selfobj, fr)
        sub.locals[g.target.id] = from_z3(x, xs.elem)
        ntrace, nvc = len(self.ctx.trace), len(self.ctx.vcs)
        self.spec_mode += 1
        try:
            val = self.force(self.eval(e.elt, sub))
        except (OutOfSubset, SpecUndefined, PyRaise):
            return None
        finally:
            self.spec_mode -= 1
        if len(self.ctx.trace) != ntrace or len(self.ctx.vcs) != nvc:
            return None
        if isinstance(val, VBool):
            et = "bool"
        elif isinstance(val, VInt):
            et = "int"
        elif isinstance(val, VStr):
            et = val.kind
        elif isinstance(val, VTuple) and getattr(val, "ntname", None) in _values.NT_DEFS:
            et = f"nt[{val.ntname}]"      # [NT(e1(x), ..) for x in xs]: a namedtuple built from pure field expressions
        elif isinstance(val, VDict):
            et = "json"                   # [{"k": e(x), ..} for x in xs]: a dict literal with constant keys and pure values
        else:
            return None
        try:
            vz = self.truth(val) if et == "bool" else (to_z3(val, et) if et.startswith("nt[") or et == "json" else val.z)
        except Exception:
            return None
        r = z3.Const(self.ctx.namer("mapped"), z3.SeqSort(vz.sort()))
        i = z3.Int(self.ctx.namer("i!cmp"))
        self.ctx.assume(z3.Length(r) == z3.Length(xs.z))
        self.ctx.assume(z3.ForAll([i], z3.Implies(z3.And(0 <= i, i < z3.Length(xs.z)), r[i] == z3.substitute(vz, (x, xs.z[i])))))
        return VSeqResult(r, et)

    def comp_map(self, e, g, xs, fr):
        """[f(x) for x in xs] over a sequence of symbolic length, f under a total contract:
        the result is a sequence r of the same length with ensures_f(xs[i], r[i]) for all i
        (the callee's contract is all that is known; its requires are proved for every i)"""
        if g.ifs and isinstance(g.target, ast.Name):
            # [elt for x in xs if c]  ==  [elt for x in filter(lambda x: c, xs)]
            from . import models as _models
            test = g.ifs[0] if len(g.ifs) == 1 else ast.BoolOp(ast.And(), list(g.ifs))
            lam = ast.Lambda(args=ast.arguments(posonlyargs=[], args=[ast.arg(arg=g.target.id)], kwonlyargs=[], kw_defaults=[],
                                                defaults=[]), body=test)
            ast.fix_missing_locations(ast.copy_location(lam, g.ifs[0]))
            kept = _models.b_filter(self, [self.e_Lambda(lam, fr), xs], {}, fr)
            if isinstance(e.elt, ast.Name) and e.elt.id == g.target.id:
                return VSeqResult(kept.z, kept.elem) if isinstance(kept, VSeq) else kept.items
            g2 = ast.comprehension(target=g.target, iter=g.iter, ifs=[], is_async=0)
            if isinstance(kept, VSeq):
                return self.comp_map(e, g2, kept, fr)
            raise OutOfSubset("filtered comprehension over a concrete list")
        if g.ifs or not (isinstance(e.elt, ast.Call) and len(e.elt.args) == 1 and not e.elt.keywords
                         and isinstance(e.elt.args[0], ast.Name) and isinstance(g.target, ast.Name)
                         and e.elt.args[0].id == g.target.id):
            r_ = self.comp_pure(e, g, xs, fr) if not g.ifs and isinstance(g.target, ast.Name) else None
            if r_ is not None:
                return r_
            raise OutOfSubset("comprehension over a symbolic sequence that is not [f(x) for x in xs]")
        f = self.force(self.eval(e.elt.func, fr))
        if not isinstance(f, VFunc):
            raise OutOfSubset("comprehension element is not a repository function")
        c = self.reg.contracts.get(f.fdef.key)
        if c is None or c.inline or c.modifies or not c.returns:
            raise OutOfSubset(f"comprehension over a symbolic sequence needs a pure contract with a return type on {f.fdef.key}")
        caller = fr.fdef.key if fr.fdef else "?"
        i = z3.Int(self.ctx.namer("i!map"))
        rng = z3.And(0 <= i, i < z3.Length(xs.z))
        x_i = from_z3(xs.z[i], xs.elem)
        sf = Frame(f.fdef, f.fdef.module, None, None)
        pname = [a.arg for a in f.fdef.node.args.args if a.arg != "self"][0]
        sf.locals[pname] = x_i
        for k, r in enumerate(c.requires):
            self.ctx.prove(z3.ForAll([i], z3.Implies(rng, self.truth(self.eval_spec(r, sf)))),
                           f"{caller}.map[{c.target}].requires.{k}", {"kind": "call-requires", "src": r})
        if c.raises or c.raises_exactly:
            # some element may make the callee raise: that exception escapes the comprehension
            excs = list(c.raises) + [x for x in c.raises_exactly if x not in c.raises]
            idx = self.ctx.choose([z3.BoolVal(True)] * (1 + len(excs)), f"map-outcome[{c.target}]")
            if idx > 0:
                ecls = excs[idx - 1]
                cond = c.raises_exactly.get(ecls, c.raises.get(ecls))
                if cond:
                    wit = z3.Int(self.ctx.namer("i!raise"))
                    sf2 = Frame(f.fdef, f.fdef.module, None, None)
                    sf2.locals[pname] = from_z3(xs.z[wit], xs.elem)
                    self.ctx.assume(z3.And(0 <= wit, wit < z3.Length(xs.z), self.truth(self.eval_spec(cond, sf2))))
                self.raise_(ecls)
            for ecls, cond in c.raises_exactly.items():
                self.ctx.assume(z3.ForAll([i], z3.Implies(rng, z3.Not(self.truth(self.eval_spec(cond, sf))))))
        rt = parse_type(c.returns)
        r = z3.Const(self.ctx.namer("mapped"), z3.SeqSort(sort_of(rt)))
        self.ctx.assume(z3.Length(r) == z3.Length(xs.z))
        r_i = from_z3(r[i], rt)
        rel = [self.truth(self.eval_spec(ex, sf, result=r_i)) for _, ex in c.ensures]
        if rel:
            self.ctx.assume(z3.ForAll([i], z3.Implies(rng, z3.And(rel))))
        self.ctx.event("callret", c.target + "[map]", VSeq(r, rt))
        return VSeqResult(r, rt)

    # ---- calls
    def e_Call(self, e, fr):
        src = ast.unparse(e.func)
        for d in self.reg.drop_calls:
            if src == d or src.startswith(d + "."):
                return NONE
        f = None
        if self.spec_mode or fr.spec is not None:
            r = self.spec_call(e, fr, src)
            if r is not _NOCONST:
                return r
            if isinstance(e.func, ast.Name) and e.func.id in self.reg.spec_funcs:
                # a body local that happens to carry the name of a spec function (e.g. after a harmless renaming)
                # is data, not the function the clause calls
                loc = fr.lookup(e.func.id)
                if loc is not None and not isinstance(loc, (VFunc, VClass, VExt, VBoundExt)):
                    f = VExt("spec:" + e.func.id)
        if f is None:
            f = self.eval(e.func, fr)
        args = []
        packed = False
        for a in e.args:
            if isinstance(a, ast.Starred):
                v = self.force(self.eval(a.value, fr))
                if isinstance(v, (VList, VTuple)):
                    args.extend(v.items)
                elif isinstance(v, VOpaque):
                    # an opaque argument pack (f(*args) of a stored call): only an opaque callee's model may take it
                    args.append(VStarred(v))
                    packed = True
                else:
                    raise OutOfSubset("*args of symbolic sequence")
            else:
                args.append(self.eval(a, fr))
        kwargs = {}
        for k in e.keywords:
            if k.arg is None:
                v = self.force(self.eval(k.value, fr))
                if isinstance(v, VDict):
                    kwargs.update(v.d)
                elif isinstance(v, VOpaque):
                    kwargs["**"] = v
                    packed = True
                else:
                    raise OutOfSubset("**kwargs")
            else:
                kwargs[k.arg] = self.eval(k.value, fr)
        if packed and not isinstance(self.force(f), VOpaque):
            raise OutOfSubset("opaque *args/**kwargs passed to a non-opaque callee")
        return self.call(f, args, kwargs, fr, e)

    def spec_call(self, e, fr, src):
        if src == "old":
            if fr.spec is None or fr.spec.get("old") is None:
                raise OutOfSubset("old() outside a postcondition")
            of = fr.spec["old"]
            of2 = Frame(of.fdef, of.module, of.selfobj, None)
            of2.locals = dict(of.locals)
            of2.spec = {"old": None, "result": None}
            return self.eval(e.args[0], of2)
        if src == "at_entry":
            ent = fr.spec.get("entry") if fr.spec else None
            if ent is None:
                raise OutOfSubset("at_entry() outside a loop invariant")
            f2 = Frame(ent.fdef, ent.module, ent.selfobj, None)
            f2.locals = dict(ent.locals)
            f2.spec = {"old": fr.spec.get("old"), "entry": None}
            return self.eval(e.args[0], f2)
        if src == "at_iter":
            ent = fr.lookup("__iter_start")
            if ent is None:
                f0 = fr
                while f0 is not None and not hasattr(f0, "iter_start"):
                    f0 = f0.parent
                ent = f0.iter_start if f0 is not None else None
            if ent is None:
                raise OutOfSubset("at_iter() outside a loop body clause")
            f2 = Frame(ent.fdef, ent.module, ent.selfobj, None)
            f2.locals = dict(ent.locals)
            f2.spec = {"old": fr.spec.get("old") if fr.spec else None, "entry": None}
            return self.eval(e.args[0], f2)
        if src == "implies":
            a = self.truth(self.eval(e.args[0], fr))
            a = z3.simplify(a)
            if z3.is_false(a):
                return VBool(True)
            if self.quant_depth == 0 and not z3.is_true(a):
                # outside quantifiers: case split, so the consequent is only evaluated where the
                # antecedent holds (it may dereference what the antecedent guards)
                if not self.ctx.branch(a, "implies"):
                    return VBool(True)
                return VBool(self.truth(self.eval(e.args[1], fr)))
            b = self.truth(self.eval(e.args[1], fr))
            return VBool(z3.Implies(a, b))
        if src in ("forall", "exists"):
            lam = e.args[0]
            assert isinstance(lam, ast.Lambda)
            names = [a.arg for a in lam.args.args]
            sub = Frame(fr.fdef, fr.module, fr.selfobj, fr)
            sub.spec = fr.spec
            qs = []
            tys = [ast.unparse(a.annotation) if a.annotation is not None else "int" for a in lam.args.args]
            if len(e.args) > 1:
                tys = [self.concrete(self.eval(x, fr)) for x in e.args[1:]] + tys[len(e.args) - 1:]
            for n, ty in zip(names, tys):
                v, _ = fresh(ty, "q_" + n, self.ctx.namer)
                sub.locals[n] = v
                qs.append(v.z)
            self.quant_depth += 1
            try:
                body = self.truth(self.eval(lam.body, sub))
            finally:
                self.quant_depth -= 1
            return VBool(z3.ForAll(qs, body) if src == "forall" else z3.Exists(qs, body))
        if src == "ite":
            c = self.truth(self.eval(e.args[0], fr))
            a = self.eval(e.args[1], fr)
            b = self.eval(e.args[2], fr)
            return self.ite(c, a, b)
        return _NOCONST

    def ite(self, c, a, b):
        c = z3.simplify(c)
        if z3.is_true(c):
            return a
        if z3.is_false(c):
            return b
        if isinstance(a, VBool) and isinstance(b, VBool):
            return VBool(z3.If(c, a.z, b.z))
        if isinstance(a, VInt) and isinstance(b, VInt):
            return VInt(z3.If(c, a.z, b.z))
        if isinstance(a, VStr) and isinstance(b, VStr) and a.kind == b.kind:
            return VStr(z3.If(c, a.z, b.z), a.kind)
        if isinstance(a, VSeq) and isinstance(b, VSeq):
            return VSeq(z3.If(c, a.z, b.z), a.elem)
        if isinstance(a, VReal) or isinstance(b, VReal):
            return VReal(z3.If(c, self._real(a), self._real(b)))
        if isinstance(a, VOpaque) and isinstance(b, VOpaque) and a.name == b.name:
            return VOpaque(z3.If(c, a.z, b.z), a.name)
        if a is NONE and b is not NONE:
            return VOpt(c, b)
        if b is NONE and a is not NONE:
            return VOpt(z3.Not(c), a)
        raise OutOfSubset(f"ite of {a!r}, {b!r}")

    def call(self, f, args, kwargs, fr=None, node=None):
        f = self.force(f)
        if isinstance(f, VFunc):
            return self.call_func(f, args, kwargs, fr)
        if isinstance(f, VClass):
            return self.instantiate(f, args, kwargs, fr)
        if isinstance(f, VExt):
            return self.call_ext(f.name, args, kwargs, fr, node)
        if isinstance(f, VBoundExt):
            return self.call_method(f.recv, f.meth, args, kwargs, fr, node)
        if isinstance(f, VOpaque):
            h = self.reg.ext_models.get("call_opaque:" + f.name)
            if h is not None:
                return h(self, f, args, kwargs)
            raise OutOfSubset(f"call of opaque {f.name}")
        if f is NONE:
            self.raise_("TypeError", VStr("'NoneType' object is not callable"))
        if isinstance(f, VObj):
            m = self.find_method(f.cls, "__call__")
            if m is not None:
                return self.call_func(VFunc(m, f, None, "__call__"), args, kwargs, fr)
            return self.call_method(f, "__call__", args, kwargs, fr, node)   # collaborator object: boundary
        raise OutOfSubset(f"call of {f!r}")

    def bind_args(self, fnode, args, kwargs, fr_new, def_frame):
        a = fnode.args
        params = [p.arg for p in a.posonlyargs + a.args]
        defaults = a.defaults
        ndef = len(defaults)
        nparams = len(params)
        args = list(args)
        kwargs = dict(kwargs)
        for i, p in enumerate(params):
            if i < len(args):
                fr_new.locals[p] = args[i]
            elif p in kwargs:
                fr_new.locals[p] = kwargs.pop(p)
            elif i >= nparams - ndef:
                fr_new.locals[p] = self.eval(defaults[i - (nparams - ndef)], def_frame)
            else:
                self.raise_("TypeError", VStr(f"missing argument {p}"))
        if len(args) > nparams:
            if a.vararg:
                fr_new.locals[a.vararg.arg] = VTuple(args[nparams:])
            else:
                self.raise_("TypeError", VStr("too many positional arguments"))
        elif a.vararg:
            fr_new.locals[a.vararg.arg] = VTuple([])
        for p, d in zip(a.kwonlyargs, a.kw_defaults):
            if p.arg in kwargs:
                fr_new.locals[p.arg] = kwargs.pop(p.arg)
            elif d is not None:
                fr_new.locals[p.arg] = self.eval(d, def_frame)
            else:
                self.raise_("TypeError", VStr(f"missing kw argument {p.arg}"))
        if kwargs:
            if a.kwarg:
                fr_new.locals[a.kwarg.arg] = VDict(kwargs)
            else:
                self.raise_("TypeError", VStr(f"unexpected keyword {list(kwargs)}"))
        elif a.kwarg:
            fr_new.locals[a.kwarg.arg] = VDict({})

    def call_func(self, f, args, kwargs, fr):
        fd = f.fdef
        if f.bound is not None:
            args = [f.bound] + list(args)
        key = fd.key if fd.module is not None else fd.qualname
        # automat inputs / outputs
        if fd.cls is not None and self.reg.automat is None and getattr(self.reg, "input_as_boundary", False) \
                and any(d.endswith(".input()") for d in fd.decorators):
            self.ctx.event("input", fd.qualname.split(".")[-1], list(args[1:]))
            return NONE
        if self.reg.automat is not None and fd.cls is not None:
            r = self.reg.automat.maybe_dispatch(self, f, fd, args, kwargs, fr)
            if r is not _NOCONST:
                return r
        if getattr(self.reg, "lazy_generators", False) and is_generator_def(fd.node):
            return VGen(f, list(args), dict(kwargs))      # nothing runs until it is iterated (for_generator)
        fm = self.reg.func_models.get(key)
        if fm is not None:
            return fm(self, args, kwargs, fr)
        c = self.reg.contracts.get(key)
        if c is not None and key != self.reg.current and not c.inline:
            return c.apply(self, args, kwargs, fr)
        if self.depth >= self.reg.max_inline_depth:
            raise OutOfSubset(f"inline depth exceeded at {key}")
        if isinstance(fd.node, ast.Lambda):
            nf = Frame(fd, fd.module, fr.selfobj if fr else None, f.closure)
            self.bind_args(fd.node, args, kwargs, nf, f.closure or nf)
            return self.eval(fd.node.body, nf)
        if any(isinstance(n, (ast.Yield, ast.YieldFrom)) for n in ast.walk(fd.node)) and not getattr(self.reg, "allow_generators", False):
            gh = self.reg.ext_models.get("generator:" + key)
            if gh is not None:
                return gh(self, f, args, kwargs)
            raise OutOfSubset(f"call of generator function {key}")
        nf = Frame(fd, fd.module, args[0] if (fd.cls is not None and args and not is_static(fd)) else None, f.closure)
        defs_frame = Frame(None, fd.module, None, f.closure)
        self.bind_args(fd.node, args, kwargs, nf, defs_frame)
        self.depth += 1
        try:
            self.exec_block(fd.node.body, nf)
        except ReturnSig as r:
            return r.value
        finally:
            self.depth -= 1
        return NONE

    def call_func_plain(self, f, args, kwargs, fr):
        return self.call_func(f, args, kwargs, fr)

    def instantiate(self, cls, args, kwargs, fr):
        name = cls.name
        cd = cls.cdef
        if cd is not None and any(b.split(".")[-1] == "Interface" for b in cd.bases) and len(args) == 1 and not kwargs:
            return args[0]        # zope interface adapter IFoo(x): identity (dropped syntax)
        if self.reg.is_subclass(name, "BaseException") and (cd is None or "__init__" not in cd.methods):
            return VObj(name, {"args": VTuple(list(args))})
        if cd is None:
            raise OutOfSubset(f"instantiate {name}")
        self.reg.register_repo_class(cd)
        h = self.reg.ext_models.get("new:" + name)
        if h is not None:
            return h(self, cls, args, kwargs)
        o = VObj(name)
        if cd.attr_fields:
            fields = [f for f in cd.attr_fields]
            pos = list(args)
            for i, f in enumerate(fields):
                pub = f.lstrip("_")
                if i < len(pos):
                    o.fields[f] = pos[i]
                elif pub in kwargs:
                    o.fields[f] = kwargs[pub]
                elif f in cd.attr_defaults:
                    kind, ex = cd.attr_defaults[f]
                    v = self.eval(ex, Frame(None, cd.module))
                    if kind == "factory":
                        v = self.call(v, [], {}, fr)
                    o.fields[f] = v
                else:
                    self.raise_("TypeError", VStr(f"missing attr field {f}"))
            m = self.find_method(name, "__attrs_post_init__")
            if m is not None:
                self.call_func(VFunc(m, o), [], {}, fr)
            return o
        m = self.find_method(name, "__init__")
        if m is not None:
            self.call_func(VFunc(m, o), args, kwargs, fr)
        return o

    # builtins, str/bytes/list/dict/set methods and library models live in models.py
    def call_ext(self, name, args, kwargs, fr, node):
        from . import models
        return models.call_ext(self, name, args, kwargs, fr, node)

    def call_method(self, recv, meth, args, kwargs, fr=None, node=None):
        from . import models
        return models.call_method(self, recv, meth, args, kwargs, fr, node)

    # ------------------------------------------------------------------ spec evaluation
    def eval_spec(self, src, fr, old=None, result=None, entry=None, extra=None):
        """evaluate a contract expression (Python syntax) in frame fr"""
        if callable(src):
            return src(self, fr, old, result)
        tree = _parse_cache(src)
        sf = Frame(fr.fdef, fr.module, fr.selfobj, fr)
        sf.spec = {"old": old, "result": result, "entry": entry}
        if fr.spec is not None:
            sf.spec = dict(fr.spec)
            if old is not None:
                sf.spec["old"] = old
            if entry is not None:
                sf.spec["entry"] = entry
        if result is not None:
            sf.locals["result"] = result
        if fr.selfobj is not None:
            sf.locals.setdefault("self", fr.selfobj)
        if extra:
            sf.locals.update(extra)
        self.spec_mode += 1
        try:
            return self.eval(tree.body, sf)
        finally:
            self.spec_mode -= 1


class VGen(V):
    """a generator object that has not started running: the function and its bound arguments"""

    def __init__(self, f, args, kwargs):
        self.f = f
        self.args = args
        self.kwargs = kwargs


class GenStop(Exception):
    """the consumer's loop body left the loop (break / return): unwinds the generator body run by for_generator"""

    def __init__(self, ent, ret):
        self.ent = ent
        self.ret = ret


def _own_nodes(fnode):
    """nodes of a function body, not descending into nested functions / lambdas / classes"""
    stack = list(fnode.body)
    while stack:
        n = stack.pop()
        yield n
        for ch in ast.iter_child_nodes(n):
            if not isinstance(ch, (ast.FunctionDef, ast.AsyncFunctionDef, ast.Lambda, ast.ClassDef)):
                stack.append(ch)


def is_generator_def(fnode):
    return not isinstance(fnode, ast.Lambda) and any(isinstance(n, (ast.Yield, ast.YieldFrom)) for n in _own_nodes(fnode))


def yield_inside_try(fnode):
    for n in _own_nodes(fnode):
        if isinstance(n, (ast.Try, ast.With)) and any(isinstance(x, (ast.Yield, ast.YieldFrom)) for x in ast.walk(n)):
            return True
    return False


def resolve_target(tg, fr):
    """a havoc target as a location: ("field", object id, field) or ("local", name)"""
    if tg[0] == "local" and len(tg) == 2:
        return ("local", tg[1])
    o = fr.lookup(tg[1]) if tg[0] == "local" else fr.selfobj
    path = tg[2:] if tg[0] == "local" else tg[1:]
    for p_ in path[:-1]:
        o = o.inner if isinstance(o, VOpt) else o
        o = o.fields.get(p_) if isinstance(o, VObj) else None
    o = o.inner if isinstance(o, VOpt) else o
    if not isinstance(o, VObj) or not path:
        return ("unresolved",) + tuple(tg)
    return ("field", o.oid, path[-1])


def changed_locations(snap, fr):
    """{location: readable path} for everything whose value differs between a frame snapshot and the frame now"""
    out = {}
    seen = set()

    def same_z(a, b):
        try:
            return a.eq(b) or z3.simplify(a).eq(z3.simplify(b))
        except Exception:
            return False

    def differs(a, b):
        """values that are not objects"""
        if a is b:
            return False
        if isinstance(a, VOpt) and isinstance(b, VOpt):
            return not same_z(a.isnone, b.isnone) or differs(a.inner, b.inner)
        if isinstance(a, VObj) and isinstance(b, VObj):
            walk(a, b, "")
            return a.oid != b.oid
        if type(a) is not type(b):
            return True
        if isinstance(a, (VFunc, VClass, VExt)) or a is NONE:
            return False
        if isinstance(a, VMap):
            return not (same_z(a.present, b.present) and same_z(a.val, b.val))
        if isinstance(a, (VList, VTuple)):
            return len(a.items) != len(b.items) or any(differs(x, y) for x, y in zip(a.items, b.items))
        if isinstance(a, VDict):
            return set(a.d) != set(b.d) or any(differs(a.d[k], b.d[k]) for k in a.d)
        z_a, z_b = getattr(a, "z", None), getattr(b, "z", None)
        if z_a is None or z_b is None:
            return z_a is not z_b
        return not same_z(z_a, z_b)

    def walk(a, b, pretty):
        if a.oid != b.oid or a.oid in seen:
            return
        seen.add(a.oid)
        for k in set(a.fields) | set(b.fields):
            if k not in a.fields or k not in b.fields or differs(a.fields[k], b.fields[k]):
                out[("field", a.oid, k)] = f"{a.cls}.{k}"

    for k, v in fr.locals.items():
        if k in snap.locals and k != "self" and differs(snap.locals[k], v):
            out[("local", k)] = k
    if fr.selfobj is not None and snap.selfobj is not None:
        walk(snap.selfobj, fr.selfobj, "self")
    return out


class VStarred(V):
    """*pack where pack is an opaque argument tuple"""

    def __init__(self, v):
        self.v = v


class VSeqResult:
    def __init__(self, z, elem):
        self.z = z
        self.elem = elem


class VJsonDict(V):
    """a JSON value already known (on this path) to be a dict"""

    def __init__(self, z):
        self.z = z

    def __repr__(self):
        return f"VJsonDict({self.z})"


import pyvc.values as _values
_values.VJsonDict = VJsonDict
_orig_to_json = _values.to_json


def _to_json2(v):
    if isinstance(v, VJsonDict):
        return v.z
    return _orig_to_json(v)


_values.to_json = _to_json2
to_json = _to_json2


class _NoConst:
    def __repr__(self):
        return "<symbolic>"


_NOCONST = _NoConst()

BUILTINS = {"len", "isinstance", "int", "str", "bytes", "list", "dict", "set", "tuple", "sorted", "range", "min", "max",
            "print", "type", "repr", "getattr", "hasattr", "bool", "filter", "map", "zip", "enumerate", "any", "all",
            "sum", "abs", "ord", "chr", "hex", "float", "object", "super", "iter", "next", "callable", "open", "id",
            "frozenset", "reversed", "bytearray", "issubclass", "setattr", "divmod", "round", "hash", "input"}

_pcache = {}


def _parse_cache(src):
    if src not in _pcache:
        _pcache[src] = ast.parse(src.strip(), mode="eval")
    return _pcache[src]


def loop_shape(s):
    """what a loop runs over, ignoring the names of its loop variables"""
    if isinstance(s, ast.While):
        return "while " + ast.unparse(s.test)
    return "for " + ast.unparse(s.iter)


def header_shape(h):
    try:
        if h.lstrip().startswith("for "):
            node = ast.parse(h.strip().rstrip(":") + ":\n    pass").body[0]
            return loop_shape(node)
        return "while " + ast.unparse(ast.parse(h.strip(), mode="eval").body)
    except SyntaxError:
        return None


def static_loop_headers(fd):
    out = []

    def walk(n, top):
        for ch in ast.iter_child_nodes(n):
            if isinstance(ch, (ast.FunctionDef, ast.Lambda, ast.AsyncFunctionDef)) and not top:
                continue
            if isinstance(ch, (ast.For, ast.While)):
                out.append(loop_shape(ch))
            walk(ch, False)
    walk(fd.node, True)
    return out


def loop_target_aliases(header, s):
    """{name in the contract's header: name in the loop as it is now}, position by position; only for names the
    loop statement itself no longer mentions (otherwise the old name means something else now)"""
    if not isinstance(s, ast.For) or not header.lstrip().startswith("for "):
        return {}
    try:
        old = ast.parse(header.strip().rstrip(":") + ":\n    pass").body[0]
    except SyntaxError:
        return {}
    if ast.unparse(old.iter) != ast.unparse(s.iter):
        return {}

    def names(t):
        if isinstance(t, ast.Name):
            return [t.id]
        if isinstance(t, (ast.Tuple, ast.List)):
            out = []
            for e in t.elts:
                r = names(e)
                if r is None:
                    return None
                out.extend(r)
            return out
        return None
    a, b = names(old.target), names(s.target)
    if a is None or b is None or len(a) != len(b):
        return {}
    mentioned = {n.id for n in ast.walk(s) if isinstance(n, ast.Name)}
    return {o: n for o, n in zip(a, b) if o != n and o not in mentioned}


def static_loop_ordinal(fd, node):
    """loops are numbered in source order within the function (nested functions excluded)"""
    m = getattr(fd, "_loop_ord", None)
    if m is None:
        loops = []

        def walk(n, top):
            for ch in ast.iter_child_nodes(n):
                if isinstance(ch, (ast.FunctionDef, ast.Lambda, ast.AsyncFunctionDef)) and not top:
                    continue
                if isinstance(ch, (ast.For, ast.While)):
                    loops.append(ch)
                walk(ch, False)
        walk(fd.node, True)
        loops.sort(key=lambda x: (x.lineno, x.col_offset))
        m = fd._loop_ord = {id(x): i for i, x in enumerate(loops)}
    return m.get(id(node), -1)


def is_static(fd):
    return any(d in ("staticmethod",) for d in fd.decorators)


def int_to_str(z):
    return z3.If(z >= 0, z3.IntToStr(z), z3.Concat(z3.StringVal("-"), z3.IntToStr(-z)))


def decode_z3_string(s):
    """z3's as_string() escapes non-printables as \\u{..}"""
    import re as _re
    return _re.sub(r"\\u\{([0-9a-fA-F]+)\}", lambda m: chr(int(m.group(1), 16)), s)


def snapshot(v, memo):
    """deep copy of the mutable holders reachable from v (z3 terms are immutable)"""
    if id(v) in memo:
        return memo[id(v)]
    if isinstance(v, VObj):
        n = VObj.__new__(VObj)
        n.cls = v.cls
        n.oid = v.oid
        n.fields = {}
        memo[id(v)] = n
        for k, x in v.fields.items():
            n.fields[k] = snapshot(x, memo)
        return n
    if isinstance(v, VList):
        n = VList([])
        memo[id(v)] = n
        n.items = [snapshot(x, memo) for x in v.items]
        return n
    if isinstance(v, VTuple):
        n = VTuple([snapshot(x, memo) for x in v.items], v.ntname, v.ntfields)
        memo[id(v)] = n
        return n
    if isinstance(v, VSeq):
        n = VSeq(v.z, v.elem)
        memo[id(v)] = n
        return n
    if isinstance(v, VSet):
        n = VSet(v.z, v.elem)
        memo[id(v)] = n
        return n
    if isinstance(v, VMap):
        n = VMap(v.present, v.val, v.kt, v.vt)
        if getattr(v, "default_empty", False):
            n.default_empty = True
        memo[id(v)] = n
        return n
    if isinstance(v, VDict):
        n = VDict({})
        memo[id(v)] = n
        n.d = {k: snapshot(x, memo) for k, x in v.d.items()}
        return n
    if isinstance(v, VOpt):
        return VOpt(v.isnone, snapshot(v.inner, memo))
    return v


def assigned_targets(stmts, interp, fr, depth=0, seen=None):
    """syntactic over-approximation of what a loop body may modify: local names and
    self.<field> paths (through inlined self.method() calls as well)."""
    out = set()
    seen = seen if seen is not None else set()

    def path_of(n):
        parts = []
        while isinstance(n, ast.Attribute):
            parts.append(n.attr)
            n = n.value
        if isinstance(n, ast.Name):
            parts.append(n.id)
            return list(reversed(parts))
        return None

    def mark(n):
        if isinstance(n, ast.Name):
            out.add(("local", n.id))
        elif isinstance(n, (ast.Tuple, ast.List)):
            for x in n.elts:
                mark(x)
        elif isinstance(n, ast.Starred):
            mark(n.value)
        else:
            base = n
            while isinstance(base, ast.Subscript):
                base = base.value
            p = path_of(base)
            if p:
                if p[0] == "self":
                    out.add(("self",) + tuple(p[1:]))
                else:
                    out.add(("local", p[0]))

    for s in stmts:
        for n in ast.walk(s):
            if isinstance(n, ast.Assign):
                for t in n.targets:
                    mark(t)
            elif isinstance(n, (ast.AugAssign, ast.AnnAssign)):
                mark(n.target)
            elif isinstance(n, ast.For):
                mark(n.target)
            elif isinstance(n, ast.Delete):
                for t in n.targets:
                    mark(t)
            elif isinstance(n, ast.ExceptHandler) and n.name:
                out.add(("local", n.name))
            elif isinstance(n, ast.NamedExpr):
                mark(n.target)
            elif isinstance(n, ast.Call) and isinstance(n.func, ast.Attribute):
                if n.func.attr in MUTATORS:
                    mark(n.func.value)
                p = path_of(n.func)
                if p and p[0] == "self" and len(p) == 2 and fr.fdef is not None and fr.fdef.cls is not None and depth < 4:
                    m = fr.fdef.cls.methods.get(p[1])
                    am = getattr(interp.reg, "automat", None)
                    mach = am.machine_of(fr.fdef.cls) if am is not None and getattr(am, "havoc_inputs", False) else None
                    if mach is not None and p[1] in mach.inputs and ("input", m.key) not in seen:
                        # opt-in (reg.automat.havoc_inputs): an Automat input changes the state and runs the outputs of its rows
                        seen.add(("input", m.key))
                        out.add(("self", "__state"))
                        for (st_, inp_), (_e, outs_, _c) in mach.table.items():
                            if inp_ != p[1]:
                                continue
                            for o_ in outs_:
                                om = mach.outputs[o_]
                                if om.key in seen:
                                    continue
                                seen.add(om.key)
                                oc = interp.reg.contracts.get(om.key)
                                if oc is not None and not oc.inline:
                                    for f in oc.modifies:
                                        out.add(("self",) + tuple(f.split(".")))
                                else:
                                    sub = assigned_targets(om.node.body, interp, fr, depth + 1, seen)
                                    out |= {t for t in sub if t[0] == "self"}
                        continue
                    if m is not None and m.key not in seen:
                        seen.add(m.key)
                        c = interp.reg.contracts.get(m.key)
                        if c is not None and not c.inline:
                            for f in c.modifies:
                                out.add(("self",) + tuple(f.split(".")))
                        else:
                            sub = assigned_targets(m.node.body, interp, fr, depth + 1, seen)
                            out |= {t for t in sub if t[0] == "self"}
    return out
