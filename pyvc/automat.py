"""Automat (MethodicalMachine) support: mechanical extraction of the transition tables from
the class bodies and the dispatch semantics, as read from automat/_methodical.py and
_core.Transitioner.transition:

  calling input i in state s: if (s, i) has no row raise NoTransition (state unchanged);
  otherwise set the state to `enter` FIRST, then run the outputs in order, synchronously
  (they may re-enter other inputs), passing the input's arguments filtered by parameter
  name; the collector (default list) receives the output values.
"""
import ast
import z3

from .values import *      # noqa
from .ctx import PathEnd
from .interp import _NOCONST, PyRaise


class Machine:
    def __init__(self, cd):
        self.cd = cd
        self.cls = cd.name
        self.attr = None
        self.states = []
        self.initial = None
        self.inputs = {}
        self.outputs = {}
        self.table = {}
        self.aliases = {}
        self._extract()

    def _extract(self):
        cd = self.cd
        for nm, v in cd.class_attrs.items():
            if isinstance(v, ast.Call) and ast.unparse(v.func).endswith("MethodicalMachine"):
                self.attr = nm
        if self.attr is None:
            return
        a = self.attr
        for name, fd in cd.methods.items():
            for d in fd.node.decorator_list:
                src = ast.unparse(d)
                if src.startswith(a + ".state("):
                    self.states.append(name)
                    if isinstance(d, ast.Call):
                        for kw in d.keywords:
                            if kw.arg == "initial" and isinstance(kw.value, ast.Constant) and kw.value.value:
                                self.initial = name
                elif src.startswith(a + ".input("):
                    self.inputs[name] = fd
                elif src.startswith(a + ".output("):
                    self.outputs[name] = fd
        for node in self._unrolled_body(cd.node.body):
            if isinstance(node, ast.Assign) and len(node.targets) == 1 and isinstance(node.targets[0], ast.Name) \
                    and isinstance(node.value, ast.Name) and node.value.id in self.states:
                self.aliases[node.targets[0].id] = node.value.id
            if isinstance(node, ast.Expr) and isinstance(node.value, ast.Call) and isinstance(node.value.func, ast.Attribute) \
                    and node.value.func.attr == "upon" and isinstance(node.value.func.value, ast.Name):
                st = node.value.func.value.id
                st = self.aliases.get(st, st)
                call = node.value
                inp = call.args[0].id if call.args else None
                enter, outs, collector = None, [], None
                pos = call.args[1:]
                for kw in call.keywords:
                    if kw.arg == "enter":
                        enter = kw.value.id
                    elif kw.arg == "outputs":
                        outs = [e.id for e in kw.value.elts]
                    elif kw.arg == "collector":
                        collector = ast.unparse(kw.value)
                    elif kw.arg == "input":
                        inp = kw.value.id
                if pos:
                    enter = pos[0].id
                    if len(pos) > 1:
                        outs = [e.id for e in pos[1].elts]
                enter = self.aliases.get(enter, enter)
                self.table[(st, inp)] = (enter, outs, collector)

    def _unrolled_body(self, body):
        """the statements of the class body with every `for <names> in (<literal tuple/list of names or tuples of names>):`
        loop unrolled (rows are sometimes declared in a loop over states: `for s in (A, B): s.upon(i, enter=s, outputs=[])`);
        a loop of any other shape is left as it is (its rows are not seen, which shows up as nodom: obligations)"""
        out = []
        for node in body:
            if isinstance(node, ast.For) and isinstance(node.iter, (ast.Tuple, ast.List)) and not node.orelse:
                tgts = [node.target] if isinstance(node.target, ast.Name) else \
                    list(node.target.elts) if isinstance(node.target, (ast.Tuple, ast.List)) else None
                ok = tgts is not None and all(isinstance(t, ast.Name) for t in tgts)
                rows = []
                for el in node.iter.elts if ok else []:
                    vals = [el] if len(tgts) == 1 else (list(el.elts) if isinstance(el, (ast.Tuple, ast.List)) else None)
                    if vals is None or len(vals) != len(tgts) or not all(isinstance(v, ast.Name) for v in vals):
                        ok = False
                        break
                    rows.append({t.id: v.id for t, v in zip(tgts, vals)})
                if ok:
                    class Sub(ast.NodeTransformer):
                        def __init__(self, m):
                            self.m = m

                        def visit_Name(self, n):
                            if n.id in self.m:
                                return ast.copy_location(ast.Name(self.m[n.id], n.ctx), n)
                            return n
                    import copy
                    for m in rows:
                        for st in node.body:
                            out.extend(self._unrolled_body([Sub(m).visit(copy.deepcopy(st))]))
                    continue
            out.append(node)
        return out

    @property
    def ok(self):
        return self.attr is not None and self.initial is not None

    def index(self, state):
        return self.states.index(self.aliases.get(state, state))


class AutomatSupport:
    def __init__(self):
        self.machines = {}
        self.on_input = None       # optional hook(it, obj, machine, input, state) for ghost bookkeeping
        self.dispatch_count = 0
        # False: an input without a row is the failing obligation nodom:...; True: it raises
        # automat.NoTransition with the state unchanged (what Automat does), so that a contract
        # can say `raises NoTransition iff ...` for the states that have no row
        self.notransition_raises = False

    def machine_of(self, cd):
        if cd.name not in self.machines:
            self.machines[cd.name] = Machine(cd)
        m = self.machines[cd.name]
        return m if m.ok else None

    def init_state(self, it, obj, cd):
        m = self.machine_of(cd)
        if m is not None:
            obj.fields["__state"] = VInt(m.index(m.initial))

    def fresh_state(self, it, obj, cd, name):
        m = self.machine_of(cd)
        if m is not None:
            z = z3.Int(it.ctx.namer(f"{name}.state"))
            it.ctx.assume(z3.And(z >= 0, z < len(m.states)))
            obj.fields["__state"] = VInt(z)

    def maybe_dispatch(self, it, f, fd, args, kwargs, fr):
        cd = fd.cls
        m = self.machine_of(cd)
        if m is None:
            return _NOCONST
        name = fd.qualname.split(".")[-1]
        if name in m.outputs and not getattr(it, "_in_dispatch", 0):
            # outputs are only run by the dispatcher (Automat refuses a direct call); when a
            # contract puts an output body under verification it is executed as a plain function
            return _NOCONST
        if name not in m.inputs:
            return _NOCONST
        obj = it.force(args[0])
        if "__state" not in obj.fields:
            self.init_state(it, obj, cd)
        st = obj.fields["__state"]
        conds = [st.z == i for i in range(len(m.states))]
        idx = it.ctx.choose(conds, f"state[{m.cls}]")
        state = m.states[idx]
        row = m.table.get((state, name))
        self.dispatch_count += 1
        it.ctx.event("input", name, list(args[1:]), m.cls, state)
        if row is None and self.notransition_raises:
            it.raise_("NoTransition", VStr(f"{m.cls}.{name}@{state}"))
        if row is None:
            it.ctx.prove(False, f"nodom:{m.cls}.{name}@{state}",
                         {"kind": "nodom", "definite": True, "machine": m.cls, "input": name, "state": state,
                          "src": f"{m.cls}.{name}() has a transition in state {state}"})
            # a path on which an obligation fails is terminal (DESIGN 3.2 iv)
            raise PathEnd(f"NoTransition {m.cls}.{name}@{state}")
        enter, outs, collector = row
        obj.fields["__state"] = VInt(m.index(enter))
        if self.on_input is not None:
            self.on_input(it, obj, m, name, state, enter, list(args[1:]))
        # bind the input's arguments by name, outputs receive those their signature names
        inode = m.inputs[name].node
        iparams = [a.arg for a in inode.args.args][1:]
        bound = {}
        pos = list(args[1:])
        for i, p in enumerate(iparams):
            if i < len(pos):
                bound[p] = pos[i]
            elif p in kwargs:
                bound[p] = kwargs[p]
        defaults = inode.args.defaults
        if defaults:
            from .interp import Frame
            for p, d in zip(iparams[len(iparams) - len(defaults):], defaults):
                if p not in bound:
                    bound[p] = it.eval(d, Frame(None, fd.module))
        if len(pos) > len(iparams) or any(p not in bound for p in iparams):
            it.raise_("TypeError", VStr(f"bad arguments for input {name}"))
        results = []
        it._in_dispatch = getattr(it, "_in_dispatch", 0) + 1
        try:
            for o in outs:
                ofd = m.outputs[o]
                oparams = [a.arg for a in ofd.node.args.args][1:]
                okw = {p: bound[p] for p in oparams if p in bound}
                # the output body itself runs as a plain method (nested inputs dispatch again)
                saved = it._in_dispatch
                it._in_dispatch = 0
                try:
                    from .values import VFunc
                    results.append(it.call_func_plain(VFunc(ofd, obj, None, o), [], okw, fr))
                finally:
                    it._in_dispatch = saved
        finally:
            it._in_dispatch -= 1
        if collector is None or collector == "list":
            return VList(results)
        if collector in ("first",):
            if not results:
                it.raise_("IndexError")
            return results[0]
        raise OutOfSubset(f"collector {collector}")
