"""Task runner: builds the tasks of one property, runs them on a process pool, replays
counterexamples natively, applies known findings, writes evidence, sets the exit code.

exit 0 held / 1 violation (+replay) / 2 undecided / 3 checker itself wrong or unbound.
"""
import importlib
import json
import multiprocessing as mp
import os
import subprocess
import sys
import time
import traceback

ROOT = os.path.dirname(os.path.dirname(os.path.abspath(__file__)))
VENV_PY = "/venv/bin/python"


# ------------------------------------------------------------------ tasks
class Task:
    kind = "task"
    counted = True      # counted as proof obligations (bounded stand-ins are not)

    def __init__(self, name):
        self.name = name

    def run(self, tier, seed):
        """returns dict(obligations=[...], info={...})"""
        raise NotImplementedError


def ob(name, status, backend="", secs=0.0, trivial=False, cex=None, meta=None, smt_hash=None, detail=None,
       replay=None, smt2=None):
    return {"name": name, "status": status, "backend": backend, "secs": round(secs, 4), "trivial": trivial,
            "cex": cex, "meta": meta or {}, "smt_hash": smt_hash, "detail": detail, "replay": replay, "smt2": smt2}


class ContractTask(Task):
    kind = "contract"

    def __init__(self, contract, regfactory, must_fail=()):
        super().__init__(contract.target)
        self.contract = contract
        self.regfactory = regfactory
        self.must_fail = set(must_fail)

    # stage 1: enumerate the paths (decision lists) - cheap, no obligation is solved here
    def plan(self, tier):
        from . import contract as C
        c = self.contract
        if c.fdef is None:
            return [None]
        reg = self.regfactory()
        paths, st = C.explore(lambda ctx: C.run_contract_path(c, reg, ctx), max_paths=c.max_paths)
        # a path that ended because no option was feasible is replayed up to that point only
        units = [pr.decisions + (["END"] if pr.outcome == "end:infeasible" else []) for pr in paths]
        if st["truncated"]:
            units.append("TRUNCATED")
        return units

    # stage 2: one path: re-execute it and discharge its obligations
    def run_unit(self, unit, tier):
        from . import contract as C, solve
        from .ctx import Ctx, PathEnd
        from .values import OutOfSubset
        c = self.contract
        if unit is None:
            return {"obs": [ob(c.target + ".bound", "unbound", detail="function not found in /repo")]}
        if unit == "TRUNCATED":
            return {"obs": [ob(c.target + ".all-paths", "unknown", detail="path limit reached")]}
        reg = self.regfactory()
        timeout = 10000 if tier == "quick" else 60000
        ctx = Ctx(unit, check_feasibility=False)
        outcome, err = None, None
        pr = None
        try:
            pr = C.run_contract_path(c, reg, ctx)
            outcome = pr.outcome
        except PathEnd as e:
            outcome = "end:" + str(e)
        except OutOfSubset as e:
            # the plan may have kept this branch only because its feasibility check timed out (load-dependent): an
            # unsatisfiable path condition means the path does not exist, not that the function is out of reach
            if C._pc_unsat(ctx):
                return {"obs": [], "covered": [], "assumptions": list(reg.assumptions)}
            return {"obs": [], "oos": str(e), "covered": [], "assumptions": list(reg.assumptions)}
        out = []
        for vc in ctx.vcs:
            v = solve.solve_vc(vc, timeout, use_cvc5=True, cross=(tier == "thorough"))
            cex = detail = None
            if v.status == "failed":
                if v.model is not None:
                    try:
                        cex = {k: solve.concretize(x, v.model) for k, x in ctx.inputs.items()}
                    except Exception as e:     # concretisation is best effort
                        cex = {"__error__": repr(e)}
                detail = {"outcome": outcome, "decisions": list(unit), "backend": v.backend,
                          "model": str(v.model)[:2000] if v.model is not None else None}
            if (v.meta or {}).get("bounded") and v.status != "failed":
                continue          # a bounded unrolling proves nothing: only its refutations are kept (for native replay)
            e = ob(v.name, v.status, v.backend, v.secs, v.trivial, cex, v.meta, v.smt_hash, detail)
            out.append(e)
        r = {"obs": out, "covered": sorted(ctx.covered), "assumptions": list(reg.assumptions)}
        if getattr(ctx, "bounded", None):
            r["oos"] = "; ".join(ctx.bounded)
        # the CPython cross-check of the explored paths runs on request (VERIF_XCHECK=1, thorough tier): on the third-round
        # contracts it still reports comparison artefacts (boundary models that emit no event) and it leaks state between the
        # units of one worker process, so it is not part of the registered thorough commands yet (DESIGN 12.9)
        if tier == "thorough" and os.environ.get("VERIF_XCHECK") and not os.environ.get("VERIF_NO_XCHECK"):
            # CPython cross-check of the interpreter (DESIGN 4.3): a model of this path's condition, to be run natively
            from . import xcheck
            try:
                r["xcheck"] = xcheck.witness(c, reg, ctx, pr, outcome, unit)
            except Exception as e:      # the cross-check must never take a verification run down
                r["xcheck"] = {"skip": "xcheck-error:" + type(e).__name__}
        return r

    # stage 3
    def finish(self, partials, tier):
        c = self.contract
        fd = c.fdef
        agg = {}
        covered = set()
        oos = []
        assumptions = []
        rank = {"discharged": 0, "unknown": 1, "disagree": 2, "failed": 3, "unbound": 4}
        for p in partials:
            covered |= set(p.get("covered", []))
            if p.get("oos"):
                oos.append(p["oos"])
            for a in p.get("assumptions", []):
                if a not in assumptions:
                    assumptions.append(a)
            for e in p["obs"]:
                cur = agg.get(e["name"])
                if cur is None:
                    cur = agg[e["name"]] = dict(e)
                    cur["paths"] = 0
                    cur["hashes"] = []
                    cur["failures"] = []
                    cur["secs"] = 0.0
                    cur["trivial"] = True
                    cur["backend"] = ""
                    cur["status"] = "discharged"
                cur["paths"] += 1
                cur["secs"] = round(cur["secs"] + e["secs"], 4)
                cur["hashes"].append(e["smt_hash"])
                cur["trivial"] = cur["trivial"] and e["trivial"]
                if rank.get(e["status"], 5) > rank.get(cur["status"], 5):
                    cur["status"] = e["status"]
                    cur["meta"] = e["meta"]
                    cur["detail"] = e["detail"]
                for be in (e["backend"] or "").replace("+", ",").split(","):
                    if be and be not in cur["backend"].split(","):
                        cur["backend"] = (cur["backend"] + "," + be).strip(",")
                if e["status"] == "failed" and len(cur["failures"]) < 12:
                    cur["failures"].append({"cex": e["cex"], "detail": e["detail"]})
        obs = list(agg.values())
        for o in obs:
            if o["status"] == "discharged" and o["backend"] != "simplifier":
                o["backend"] = ",".join(b for b in o["backend"].split(",") if b != "simplifier")
        if oos:
            obs.append(ob(c.target + ".in-subset", "out-of-reach", detail=sorted(set(oos))[:5]))
            # bounded stand-in for a function the verifier cannot reach: the contract's clauses are evaluated natively on
            # the real function for a few inputs drawn from the precondition.  Proves nothing; a clause that fails
            # natively is a violation with its witness (the replay decides), anything else stays undecided.
            have = {o["name"] for o in obs if o["status"] == "failed"}
            try:
                for po in native_probe(c, self.regfactory):
                    if po["name"] not in have:
                        cur = agg.get(po["name"])
                        if cur is None or cur["status"] != "failed":
                            cur = dict(po)
                            cur["paths"], cur["hashes"], cur["failures"] = 0, [], []
                            agg[po["name"]] = cur
                            obs = [o for o in obs if o["name"] != po["name"]] + [cur]
                        cur["failures"].append({"cex": po["cex"], "detail": po["detail"]})
            except Exception as e:        # the probe is best effort
                obs.append(ob(c.target + ".native-probe", "out-of-reach", detail=f"probe failed: {e!r}"[:300]))
        if fd is not None and fd.cls is not None:
            # every contract describes the fields of ONE object: two instances never share a field's container.  An attrs
            # field (or class attribute) whose default is a mutable literal is one object shared by all instances.
            import ast as _ast
            shared = []
            cd = fd.cls
            for nm, (kind, val) in sorted(cd.attr_defaults.items()):
                lit = isinstance(val, (_ast.List, _ast.Dict, _ast.Set, _ast.ListComp, _ast.DictComp, _ast.SetComp)) or \
                    (isinstance(val, _ast.Call) and _ast.unparse(val.func) in ("list", "dict", "set", "deque", "collections.deque",
                                                                                 "defaultdict", "collections.defaultdict", "bytearray"))
                if kind == "default" and lit:
                    shared.append(nm)
            for nm, val in sorted(cd.class_attrs.items()):
                if isinstance(val, (_ast.List, _ast.Dict, _ast.Set)) and nm not in cd.attr_defaults and not nm.isupper():
                    uses = [m_ for m_ in cd.methods.values() if f"self.{nm}" in m_.text]
                    if uses:
                        shared.append(nm)
            name = f"{fd.module.relpath}:{cd.name}.fields.no-shared-mutable-default"
            obs.append(ob(name, "failed" if shared else "discharged", "evaluation", 0.0, False, None,
                          {"kind": "data", "definite": True,
                           "src": f"no field of {cd.name} has a mutable object as its class-level default (shared by every instance): "
                                  f"{shared or 'none'}"}, smt_hash=name, detail={"shared": shared}))
        if fd is not None and "requires" not in covered and not oos:
            obs.append(ob(c.target + ".requires-satisfiable", "vacuous", detail="no path satisfies the precondition"))
        if not obs:
            obs.append(ob(c.target + ".nonvacuous", "vacuous", detail="no obligation generated"))
        xc = None
        if tier == "thorough" and any("xcheck" in p for p in partials):
            from . import xcheck
            try:
                xc = xcheck.run_task(c, partials, None)
            except Exception:
                xc = {"function": c.target, "paths_in_scope": 0, "paths_checked": 0, "agree": 0, "mismatches": [],
                      "skipped": {"xcheck-error:" + traceback.format_exc().strip().splitlines()[-1][:120]: 1}}
        return {"obligations": obs, "xcheck": xc,
                "info": {"target": c.target, "sha": fd.sha if fd else None,
                         "lines": [fd.node.lineno, fd.node.end_lineno] if fd else None,
                         "paths": len(partials), "covered": sorted(covered),
                         "assumptions": assumptions, "note": c.note, "props": c.props, "replay": c.replay,
                         "lemma": ({"source": c.source_text, "module": c.source_module} if c.source_text else None)}}


def native_probe(c, regfactory, per_path=3, max_paths=6):
    """inputs that satisfy the contract's precondition (solver models), one candidate 'failed' obligation per ensures /
    raises-iff clause and input, marked bounded: only the native replay can turn one into a reported violation"""
    import z3
    from . import contract as C, solve
    from .interp import Interp
    from .ctx import PathEnd
    fd = c.fdef
    if fd is None:
        return []
    # a parameter the contract does not know (a change added it): the probe passes a string for it (a guess; the replay on
    # the real function decides, so a bad guess can only lose the witness)
    import copy as _copy
    argn = [a.arg for a in fd.node.args.posonlyargs + fd.node.args.args if a.arg != "self"]
    if any(p_ not in c.params for p_ in argn):
        c = _copy.copy(c)
        c.params = dict(c.params)
        for p_ in argn:
            c.params.setdefault(p_, "str")

    def setup(ctx):
        reg = regfactory()
        it = Interp(ctx, reg)
        reg.current = fd.key
        fr, selfobj = C.make_inputs(it, c, fd)
        ctx.inputs = dict(fr.locals)
        if c.pre_hook:
            c.pre_hook(it, fr)
        for r in c.requires:
            ctx.assume(it.truth(it.eval_spec(r, fr)))
        npc0, ndec0 = len(ctx.pc), len(ctx.decisions)
        # steer the sampling towards the cases the clauses distinguish: the antecedent of every implies(A, B) clause
        import ast as _ast
        guards = []
        oldfr = it.snapshot_frame(fr)
        for _n, ex in list(c.ensures) + list(c.internal_ensures) + [(e_, c_) for e_, c_ in c.raises_exactly.items()]:
            if not isinstance(ex, str):
                continue
            try:
                tree = _ast.parse(ex.strip(), mode="eval").body
            except SyntaxError:
                continue
            cand = [tree]
            if isinstance(tree, _ast.Call) and isinstance(tree.func, _ast.Name) and tree.func.id in ("implies", "imp") and tree.args:
                cand = [tree.args[0]]
            for a in cand:
                try:
                    g = it.truth(it.eval_spec(_ast.unparse(a), fr, old=oldfr))
                    if len(ctx.decisions) == ndec0 and not z3.is_true(z3.simplify(g)) and not z3.is_false(z3.simplify(g)):
                        guards.append(g)
                except Exception:
                    pass
        pr = C.PathResult()
        pr.outcome = "setup"
        pr.pc = list(ctx.pc[:npc0])
        pr.guards = guards
        pr.inputs = dict(ctx.inputs)
        return pr

    paths, _ = C.explore(setup, max_paths=max_paths)
    out = []
    key = fd.key
    clauses = [(f"{key}.ensures.{n}", "ensures", ex) for n, ex in (c.ensures + c.internal_ensures) if isinstance(ex, str)] + \
              [(f"{key}.raises[{e}].if", "raises-iff", cond) for e, cond in c.raises_exactly.items() if isinstance(cond, str)]
    for pr in paths:
        if pr.outcome != "setup":
            continue
        s = z3.Solver()
        s.set("timeout", 3000)
        for p in pr.pc:
            s.add(p)
        inputs = getattr(pr, "inputs", {})
        steer = [g for g in getattr(pr, "guards", [])][:8]
        for rnd in range(per_path + 2 * len(steer)):
            extra = None
            if rnd >= per_path:
                g = steer[(rnd - per_path) // 2]
                extra = g if (rnd - per_path) % 2 == 0 else z3.Not(g)
            if extra is not None:
                s.push()
                s.add(extra)
            ok = s.check() == z3.sat
            m = s.model() if ok else None
            if extra is not None:
                s.pop()
            if not ok:
                if extra is not None:
                    continue
                break
            try:
                cex = {k: solve.concretize(v, m) for k, v in inputs.items()}
            except Exception:
                break
            for name, kind, src in clauses:
                out.append(ob(name, "failed", "native-probe", 0.0, False, cex,
                              {"kind": kind, "src": src, "bounded": "native probe of a function out of the verifier's reach"},
                              smt_hash=None, detail={"outcome": "native-probe", "decisions": [], "model": None}))
            block = []
            for v in inputs.values():
                z = getattr(v, "z", None)
                if z is not None and z3.is_expr(z) and (z.sort() == z3.IntSort() or z.sort() == z3.StringSort() or z.sort() == z3.BoolSort()):
                    block.append(z != m.eval(z, model_completion=True))
            if not block:
                break
            s.add(z3.Or(block))
    return out


class FuncTask(Task):
    """a task implemented by a python callable returning {"obligations": [...], "info": {...}}"""

    def __init__(self, name, fn, counted=True, kind="lemma"):
        super().__init__(name)
        self.fn = fn
        self.counted = counted
        self.kind = kind

    def plan(self, tier):
        return [0]

    def run_unit(self, unit, tier):
        return self.fn(tier, int(os.environ.get("VERIF_SEED", "0") or 0))

    def finish(self, partials, tier):
        return partials[0]


_TASKS = {}


def _tasks(modname):
    if modname not in _TASKS:
        _TASKS[modname] = importlib.import_module(modname).tasks()
        only = os.environ.get("VERIF_ONLY_TASKS")      # development aid (mutant runs): regex over task names
        if only:
            import re
            _TASKS[modname] = [t for t in _TASKS[modname] if re.search(only, t.name)]
    return _TASKS[modname]


def _plan(args):
    modname, idx, tier = args
    try:
        return ("ok", _tasks(modname)[idx].plan(tier))
    except Exception:
        return ("crash", traceback.format_exc())


def _unit(args):
    modname, idx, unit, tier = args
    t0 = time.time()
    try:
        r = _tasks(modname)[idx].run_unit(unit, tier)
        r["_wall"] = time.time() - t0
        return r
    except Exception:
        return {"crash": traceback.format_exc(), "_wall": time.time() - t0}


def run_all(modname, tier, jobs):
    tasks = _tasks(modname)
    # tasks that manage their own process pool (the composed-machine engine) run first, in this process
    own = {}
    for i, t in enumerate(tasks):
        if getattr(t, "own_pool", False):
            t0 = time.time()
            try:
                r = t.run_own(tier, jobs)
            except Exception:
                r = {"obligations": [ob(t.name + ".crash", "crash", detail=traceback.format_exc())], "info": {}}
            r["task"], r["kind"], r["counted"], r["wall"] = t.name, t.kind, t.counted, round(time.time() - t0, 2)
            own[i] = r
    serial = jobs == 1 or bool(os.environ.get("VERIF_SERIAL"))
    pool = None

    def mapper(f, xs):
        """parallel map that survives a worker being killed (e.g. by the OOM killer) or wedged in the solver:
        see pyvc/pool.py; a unit that kills its worker twice is reported as a crash"""
        if serial:
            return [f(x) for x in xs]
        from . import pool as P
        if f is _plan:
            fail = lambda x, why: ("crash", why)        # noqa
        else:
            fail = lambda x, why: {"crash": why, "_wall": 0}     # noqa
        return P.run(f, xs, jobs, deadline_s=(900 if tier == "quick" else 7200), on_fail=fail)

    try:
        plans = mapper(_plan, [(modname, i, tier) for i in range(len(tasks))])
        units = []
        for i, (st, pl) in enumerate(plans):
            if i in own:
                continue
            if st == "ok":
                units += [(modname, i, u, tier) for u in pl]
        parts = mapper(_unit, units)
        # a unit that died on a solver-internal error (z3 context in a bad state) is retried once in a
        # fresh process before it is reported as a crash
        def _shaky(p):
            if not isinstance(p, dict):
                return False
            if "crash" in p:
                return "Z3Exception" in str(p["crash"])
            # an obligation the solver gave up on: ask once more in a process whose z3 context is fresh
            # (a cancellation left behind by an earlier query makes every later answer "unknown")
            # ... and a "failed" that rests on a candidate model only (the solver was undecided on the full query) is just
            # as shaky as an "unknown"
            # ... and a path that ended outside the subset: state left behind by other units run earlier in the same worker
            # process has made a path of an unchanged function end that way (seen once in a fresh-sandbox run, C17
            # `cannot store None as str`: a branch that is pruned in a fresh process was kept); a genuine out-of-subset
            # construct ends the same way again
            if p.get("oos"):
                return True
            return any(isinstance(o, dict) and (o.get("status") == "unknown" or
                                                (o.get("status") == "failed" and "candidate" in str(o.get("backend", ""))))
                       for o in p.get("obs", []) or [])
        redo = [i for i, p in enumerate(parts) if _shaky(p)]
        redo = [i for i in redo if units[i][2] not in (None, "TRUNCATED")]
        if redo and not serial:
            again = mapper(_unit, [units[i] for i in redo])
            for i, p in zip(redo, again):
                if isinstance(p, dict) and ("crash" not in p or "crash" in parts[i]):
                    # a candidate-only refutation that a fresh process repeats is no longer put down to a solver hiccup
                    was = {o.get("name") for o in (parts[i].get("obs") or []) if isinstance(o, dict) and o.get("status") == "failed"
                           and "candidate" in str(o.get("backend", ""))}
                    for o in p.get("obs") or []:
                        if isinstance(o, dict) and o.get("status") == "failed" and "candidate" in str(o.get("backend", "")) \
                                and o.get("name") in was and isinstance(o.get("detail"), dict):
                            o["detail"]["repeated_in_fresh_process"] = True
                    parts[i] = p
    finally:
        pass
    results = []
    for i, t in enumerate(tasks):
        if i in own:
            results.append(own[i])
            continue
        st, pl = plans[i]
        if st != "ok":
            results.append({"task": t.name, "kind": "error", "counted": False, "wall": 0, "info": {},
                            "obligations": [ob(t.name + ".crash", "crash", detail=pl)]})
            continue
        mine = [p for (u, p) in zip(units, parts) if u[1] == i]
        crashed = [p for p in mine if "crash" in p]
        if crashed:
            results.append({"task": t.name, "kind": "error", "counted": False, "wall": 0, "info": {},
                            "obligations": [ob(t.name + ".crash", "crash", detail=crashed[0]["crash"])]})
            continue
        try:
            r = t.finish(mine, tier)
        except Exception:
            r = {"obligations": [ob(t.name + ".crash", "crash", detail=traceback.format_exc())], "info": {}}
        r["task"] = t.name
        r["kind"] = t.kind
        r["counted"] = t.counted
        r["wall"] = round(sum(p.get("_wall", 0) for p in mine), 3)
        r.setdefault("info", {})["wall"] = r["wall"]
        results.append(r)
    return results


# ------------------------------------------------------------------ native replay
def warmup_variants(cex, limit=8):
    """neighbouring inputs for an earlier call on the same object: one string argument changed at its front / back"""
    if not isinstance(cex, dict) or not isinstance(cex.get("self"), dict) or "__error__" in cex:
        return []
    out = []
    for k, v in cex.items():
        if k == "self" or not isinstance(v, str):
            continue
        for n in ("a" + v, "b" + v[1:] if v else "b", v + "a", "ab" + v):
            if n != v and {k: n} not in out:
                out.append({k: n})
    return out[:limit]


def native_replay(prop, obligation, info, o, outdir, warmup=None):
    """write a replay file and run it against the real code; returns (path, reproduced, output)"""
    os.makedirs(outdir, exist_ok=True)
    safe = "".join(ch if ch.isalnum() or ch in "._-" else "_" for ch in obligation)[:150]
    path = os.path.join(outdir, f"{prop}__{safe}.json")
    if o.get("replay") is None and o["meta"].get("replay"):
        o = dict(o)
        o["replay"] = dict(o["meta"]["replay"])
        o["replay"]["cti"] = o.get("cex")
    rep = {"property": prop, "obligation": obligation, "target": info.get("target"), "kind": o["meta"].get("kind"),
           "clause": o["meta"].get("src"), "exc": o["meta"].get("exc"), "inputs": o.get("cex"),
           "replay_spec": info.get("replay"), "lemma": info.get("lemma"), "solver": o.get("backend"), "solver_output": o.get("detail"),
           "extra": o.get("replay")}
    if warmup:
        rep["warmup_calls"] = warmup
    with open(path, "w") as f:
        json.dump(rep, f, indent=1, default=str)
    reproduced, out = run_replay_file(path)
    rep["reproduced"] = reproduced
    rep["native_output"] = out[-4000:]
    with open(path, "w") as f:
        json.dump(rep, f, indent=1, default=str)
    return path, reproduced, out


def run_replay_file(path):
    try:
        p = subprocess.run([VENV_PY, os.path.join(ROOT, "replay", "driver.py"), path], capture_output=True, text=True,
                           timeout=120, cwd=ROOT)
        out = p.stdout + p.stderr
        return any(l.strip() == "REPRODUCED" for l in p.stdout.splitlines()), out
    except Exception as e:
        return False, repr(e)


# ------------------------------------------------------------------ main
def load_json(p, default):
    try:
        with open(p) as f:
            return json.load(f)
    except Exception:
        return default


def main(prop, tier, seed, jobs=None, update_baseline=False):
    t0 = time.time()
    modname = f"props.{prop.lower()}"
    sys.path.insert(0, ROOT)
    mod = importlib.import_module(modname)
    jobs = jobs or 16
    results = run_all(modname, tier, jobs)

    known = [k for k in load_json(os.path.join(ROOT, "known_findings.json"), {"findings": []})["findings"]
             if k["property"] == prop]
    baseline = load_json(os.path.join(ROOT, "baseline_obligations.json"), {}).get(prop, {})
    base_ok = set(baseline.get("discharged", []))
    base_open = set(baseline.get("open", []))

    n_ob = n_dis = 0
    by_backend = {}
    solver_s = 0.0
    violations, undecided, checker_err, known_hits, open_obs = [], [], [], [], []
    funcs, samples, bounded, assumptions = [], [], [], []
    hashes = set()
    nontrivial = 0
    evaluations = 0
    all_names = []
    for r in results:
        info = r.get("info", {})
        if info.get("target"):
            funcs.append({"function": info["target"], "sha256_16": info.get("sha"), "lines": info.get("lines"),
                          "paths": info.get("paths"), "wall_s": info.get("wall")})
        for a in info.get("assumptions", []):
            if a not in assumptions:
                assumptions.append(a)
        if not r["counted"]:
            bounded.append({"task": r["task"], "kind": r["kind"], "wall_s": r["wall"],
                            "results": [{k: o[k] for k in ("name", "status", "detail")} for o in r["obligations"]]})
        for o in r["obligations"]:
            name = o["name"]
            st = o["status"]
            must_fail = o["meta"].get("must_fail")
            if must_fail:
                # canary: a deliberately false obligation; proving it means the engine is unsound
                if st == "discharged":
                    checker_err.append((name, "canary proved"))
                continue
            if not r["counted"]:
                if st in ("failed",):
                    # a bounded stand-in found a concrete failing input: that is a native witness
                    violations.append((r, o))
                elif st in ("crash",):
                    checker_err.append((name, o.get("detail")))
                continue
            all_names.append(name)
            solver_s += o.get("secs", 0)
            evaluations += o.get("paths", 1)
            for h in o.get("hashes", [o.get("smt_hash")]):
                if h and h != "true" and h not in hashes:
                    hashes.add(h)
                    nontrivial += 1
            if name in base_open and st != "failed":
                open_obs.append({"name": name, "status": st})
                continue
            n_ob += 1
            if st == "discharged":
                n_dis += 1
                by_backend[o["backend"] or "?"] = by_backend.get(o["backend"] or "?", 0) + 1
                if len(samples) < 6 and not o["trivial"]:
                    samples.append({"obligation": name, "clause": o["meta"].get("src"), "verdict": "unsat (discharged)",
                                    "backend": o["backend"], "paths": o.get("paths", 1)})
            elif st == "failed":
                violations.append((r, o))
            elif st in ("unknown", "out-of-reach"):
                undecided.append((name, st, o.get("detail")))
            elif st in ("unbound", "crash", "vacuous", "disagree"):
                checker_err.append((name, f"{st}: {o.get('detail')}"))
            else:
                checker_err.append((name, f"unexpected status {st}"))

    lines = []
    real_viol = []
    outdir = os.path.join(os.environ.get("VERIF_OUT_DIR") or os.path.join(ROOT, "out"), "replay")
    for r, o in violations:
        name = o["name"]
        info = r.get("info", {})
        fails = o.get("failures") or [{"cex": o.get("cex"), "detail": o.get("detail")}]
        new_fail = []
        for fl in fails:
            k = match_known(known, name, fl)
            if k is not None:
                if k["id"] not in known_hits:
                    lines.append(f"KNOWN-FINDING: property={prop} {k['text']}")
                    known_hits.append(k["id"])
            else:
                new_fail.append(fl)
        if not new_fail:
            n_ob -= 1 if r["counted"] else 0      # a recorded finding is not part of the claimed set
            continue
        reported = False
        last_path = None
        # a machine-level refutation is turned into a witness by a budgeted search for a legal event history: two
        # counterexamples-to-induction per obligation are tried, not six
        ntry = 2 if str((o.get("meta") or {}).get("replay", {}).get("driver", "")).startswith("mailbox_history") else 6
        for i, fl in enumerate(new_fail[:ntry]):
            o2 = dict(o)
            o2["cex"], o2["detail"] = fl["cex"], fl["detail"]
            path, reproduced, out = native_replay(prop, name + (f"__{i}" if i else ""), info, o2, outdir)
            last_path = path
            if reproduced:
                real_viol.append(name)
                lines.append(f"VIOLATION property={prop} replay={path}")
                reported = True
                break
        if not reported and not info.get("replay") and not (o.get("replay") or o["meta"].get("replay")):
            # the counter-model may sit in the pre-STATE of the object (a field the contract does not know, e.g. a cache a
            # change introduced) rather than in the inputs: look for a two-call history on a freshly constructed object -
            # the same call with a neighbouring input first - that shows the clause failing natively (bounded, only ever
            # turns a refutation into a witness)
            for fl in new_fail[:2]:
                hist = None
                for j, wc in enumerate(warmup_variants(fl.get("cex"))):
                    o2 = dict(o)
                    o2["cex"], o2["detail"] = fl["cex"], fl["detail"]
                    path, reproduced, out = native_replay(prop, name + f"__history{j}", info, o2, outdir, warmup=[wc])
                    if reproduced:
                        hist = path
                        break
                    try:
                        os.remove(path)
                    except OSError:
                        pass
                if hist:
                    real_viol.append(name)
                    lines.append(f"VIOLATION property={prop} replay={hist}")
                    reported = True
                    break
        if not reported:
            imprecise = o["meta"].get("imprecise") or any((fl.get("meta") or {}).get("imprecise") for fl in new_fail)
            if o["meta"].get("bounded"):
                # refuted only on a bounded unrolling and no native witness: the function is already reported out of reach
                undecided.append((name, f"sat-on-a-bounded-unrolling {o['meta']['bounded']}", last_path))
            elif imprecise and not o["meta"].get("definite"):
                # the path that refuted it went through a construct the encoding only over-approximates (an unmodelled
                # format directive, repr(), ...): without a native witness the refutation may be the encoding's own
                undecided.append((name, f"sat-on-an-over-approximated-path {imprecise}", last_path))
            elif not o["meta"].get("definite") and new_fail and all(
                    "candidate" in str(((fl.get("detail") or {}) if isinstance(fl.get("detail"), dict) else {}).get("backend", ""))
                    and not ((fl.get("detail") or {}) if isinstance(fl.get("detail"), dict) else {}).get("repeated_in_fresh_process")
                    for fl in new_fail):
                # the solver could not decide the query; what it offered is a model of the quantifier-free part only.  Without
                # a native witness that is not a refutation (DESIGN 5: a violation needs a definite sat)
                undecided.append((name, "candidate-counterexample-only (solver undecided on the full query)", last_path))
            elif name in base_ok or o["meta"].get("definite"):
                real_viol.append(name)
                lines.append(f"VIOLATION property={prop} replay={last_path} obligation={name} no-failing-input-found")
            else:
                undecided.append((name, "sat-but-not-reproduced", last_path))

    # a fixed finding must not fire again; an open finding that no longer fires is only noted
    status = 0
    if real_viol:
        status = 1
    elif checker_err:
        status = 3
    elif undecided:
        status = 2

    ev = {
        "property_id": prop, "tier": tier, "seed": seed, "level": "proof",
        "coverage": {
            "obligations": n_ob, "discharged": n_dis,
            "checker_cmd": f"./check {prop} --tier {tier}",
            "trusted_base": getattr(mod, "TRUSTED", []),
            "evaluations": evaluations, "distinct_nontrivial": nontrivial,
            "rule": "one evaluation = one (path, obligation) verification condition generated from /repo's current source; "
                    "distinct = distinct SMT formula by hash; trivial = reduced to true by the simplifier before any solver call",
            "samples": samples,
            "functions_under_contract": funcs,
            "by_backend": by_backend, "solver_s": round(solver_s, 2),
            "open_obligations": open_obs,
            "bounded_standins": bounded,
            "undecided": [list(map(str, u)) for u in undecided],
            "checker_errors": [list(map(str, u)) for u in checker_err],
            "known_findings_hit": known_hits,
            "dropped_syntax": DROPPED,
        },
        "assumptions": list(getattr(mod, "ASSUMPTIONS", [])) + assumptions,
        "wall_s": round(time.time() - t0, 2),
        "violations": len(real_viol),
    }
    if hasattr(mod, "evidence_extra"):
        ev["coverage"].update(mod.evidence_extra(results))
    xcs = [r["xcheck"] for r in results if r.get("xcheck")]
    if tier == "thorough" and xcs:
        from . import xcheck
        ev["coverage"]["xcheck"] = xcheck.merge(xcs)
        enforced = prop in XCHECK_ENFORCED
        ev["coverage"]["xcheck"]["enforced"] = enforced
        for m in ev["coverage"]["xcheck"]["mismatches"]:
            msg = (f"xcheck:{m['function']} path {m['decisions']}", "the symbolic path and CPython disagree on "
                   + "; ".join(f"{d['what']} (symbolic {str(d['symbolic'])[:120]} / CPython {str(d['native'])[:120]})"
                               for d in m["differences"]) + f" for inputs {str(m['inputs'])[:400]}")
            if enforced:
                checker_err.append(msg)
                ev["coverage"]["checker_errors"].append(list(map(str, msg)))
                if status in (0, 2):
                    status = 3
            else:
                lines.append(f"XCHECK-MISMATCH property={prop} {msg[0]}: {msg[1][:600]}")
        x = ev["coverage"]["xcheck"]
        lines.append(f"{prop} xcheck: functions={x['functions']} paths_in_scope={x['paths_in_scope']} checked={x['paths_checked']} "
                     f"agree={x['agree']} skipped={sum(x['skipped'].values())} mismatches={len(x['mismatches'])}")
    evdir = os.environ.get("VERIF_EVIDENCE_DIR") or os.path.join(ROOT, "evidence")   # override: runs against scratch trees
    os.makedirs(evdir, exist_ok=True)
    with open(os.path.join(evdir, f"{prop}.json"), "w") as f:
        json.dump(ev, f, indent=1, default=str)

    for l in lines:
        print(l)
    for u in undecided:
        print(f"UNDECIDED property={prop} obligation={u[0]} reason={u[1]} {str(u[2])[:300] if len(u) > 2 else ''}")
    for c in checker_err:
        print(f"CHECKER-ERROR property={prop} {c[0]}: ...{str(c[1])[-1800:]}")
    print(f"{prop} {tier}: obligations={n_ob} discharged={n_dis} open={len(open_obs)} known={len(known_hits)} "
          f"violations={len(real_viol)} undecided={len(undecided)} errors={len(checker_err)} wall={ev['wall_s']}s")
    if update_baseline:
        allb = load_json(os.path.join(ROOT, "baseline_obligations.json"), {})
        dis = sorted({o["name"] for r in results if r["counted"] for o in r["obligations"]
                      if o["status"] == "discharged" and not o["meta"].get("must_fail")})
        allb[prop] = {"discharged": dis, "open": sorted(base_open)}
        with open(os.path.join(ROOT, "baseline_obligations.json"), "w") as f:
            json.dump(allb, f, indent=1, sort_keys=True)
    return status


def decode_cex(v):
    if isinstance(v, dict):
        if "__bytes__" in v:
            return bytes(v["__bytes__"])
        if "__tuple__" in v:
            return tuple(decode_cex(x) for x in v["__tuple__"])
        return {k: decode_cex(x) for k, x in v.items()}
    if isinstance(v, list):
        return [decode_cex(x) for x in v]
    return v


def match_known(known, name, fl):
    """a failure matches an *open* finding when the obligation is the same and the
    finding's witness predicate holds of the counterexample (so a different way of
    breaking the same obligation is still reported)"""
    for k in known:
        if k.get("status") != "open":
            continue
        if k["obligation"] != name:
            continue
        w = k.get("witness_expr")
        if w:
            env = {}
            cex = fl.get("cex")
            if isinstance(cex, dict):
                env.update({kk.replace(".", "_"): decode_cex(vv) for kk, vv in cex.items()})
            env["detail"] = fl.get("detail")
            env["cex"] = decode_cex(cex)
            try:
                if not eval(w, {"__builtins__": {"isinstance": isinstance, "dict": dict, "list": list, "str": str,
                                                 "int": int, "bool": bool, "float": float, "len": len, "any": any,
                                                 "all": all, "type": type, "bytes": bytes}}, env):
                    continue
            except Exception:
                continue
        return k
    return None


# a cross-check mismatch is a CHECKER-ERROR (exit 3) for the properties on whose unchanged tree the cross-check was seen
# quiet (every comparison artefact found there was turned into a skip rule); for the others it is printed as
# XCHECK-MISMATCH and recorded in the evidence without touching the exit code, until they have been looked at
XCHECK_ENFORCED = set()      # informational until re-validated on the third-round contracts (was: {"C12", "C19", "C20", "C05", "C06", "C07", "C16", "C17", "C13", "C10", "C15", "C04"})

DROPPED = ["decorators (@attrs/@define fields become typed pre-state; @implementer; @m.input/@m.output/@m.state replaced by "
           "Automat dispatch semantics)", "docstrings", "log.msg/log.err/print/debug calls", "self._timing.add(...)",
           "zope interface adapters IFoo(x) (identity)"]
