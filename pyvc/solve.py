"""Discharging verification conditions: z3 first, cvc5 (CLI, --strings-exp) for what z3
leaves unknown.  unknown/timeout is never mapped to a verdict."""
import hashlib
import os
import subprocess
import tempfile
import time
import z3

from .values import *   # noqa
from .values import J, OJ
from .interp import decode_z3_string, VJsonDict
from .ctx import guarded_check

CVC5 = "/usr/bin/cvc5"


class Verdict:
    def __init__(self, name, status, backend, secs, model=None, meta=None, smt_hash=None, trivial=False, smt2=None):
        self.name = name
        self.status = status      # 'discharged' | 'failed' | 'unknown'
        self.backend = backend
        self.secs = secs
        self.model = model
        self.meta = meta or {}
        self.smt_hash = smt_hash
        self.trivial = trivial
        self.smt2 = smt2


_sk = [0]


def skolemize_goal(goal):
    """forall x. P(x) as a goal: prove P(sk) for a fresh constant sk (sound and complete);
    conjunctions are handled one level deep.  Returns (goal', skolem constants)"""
    sks = []

    def sk1(g):
        if z3.is_quantifier(g) and g.is_forall():
            n = g.num_vars()
            consts = []
            for i in range(n):
                _sk[0] += 1
                consts.append(z3.Const(f"sk!{_sk[0]}_{g.var_name(i)}", g.var_sort(i)))
            sks.extend(consts)
            # de Bruijn: var 0 is the last bound variable
            return sk1(z3.substitute_vars(g.body(), *reversed(consts)))
        if z3.is_and(g):
            return z3.And([sk1(c) for c in g.children()])
        if z3.is_implies(g):
            return z3.Implies(g.arg(0), sk1(g.arg(1)))
        return g
    return sk1(goal), sks


def _has_var(e):
    stack, seen = [e], set()
    while stack:
        x = stack.pop()
        if x.get_id() in seen:
            continue
        seen.add(x.get_id())
        if z3.is_var(x):
            return True
        if z3.is_quantifier(x):
            continue
        stack.extend(x.children())
    return False


def _index_terms(exprs, limit=6000):
    """ground integer terms used as sequence indices (seq.nth / seq.at / seq.extract offsets)"""
    out, seen, stack, n = [], set(), list(exprs), 0
    while stack and n < limit:
        e = stack.pop()
        n += 1
        if e.get_id() in seen:
            continue
        seen.add(e.get_id())
        if z3.is_quantifier(e):
            stack.append(e.body())
            continue
        if z3.is_app(e) and e.num_args() == 2 and (e.decl().kind() in (z3.Z3_OP_SEQ_NTH, z3.Z3_OP_SEQ_AT) or
                                                   e.decl().name() in ("seq.nth_i", "seq.nth_u")):   # nth after simplify()
            t = e.arg(1)
            if not _has_var(t) and not z3.is_int_value(t):
                out.append(t)
        elif z3.is_app(e) and e.decl().kind() == z3.Z3_OP_SELECT and e.num_args() == 2 and z3.is_int(e.arg(1)):
            # integer-indexed arrays (a queue kept as array + length) are indexed like sequences
            t = e.arg(1)
            if not _has_var(t) and not z3.is_int_value(t):
                out.append(t)
        stack.extend(e.children())
    uniq, ids = [], set()
    for t in out:
        if t.get_id() not in ids:
            ids.add(t.get_id())
            uniq.append(t)
    return uniq


def _inst(q, terms, depth, out, budget):
    """ground instances of a (possibly nested) universally quantified hypothesis"""
    if budget[0] <= 0 or depth > 3:
        return
    if z3.is_and(q):
        for c in q.children():
            _inst(c, terms, depth, out, budget)
        return
    if z3.is_or(q):
        # A or (B and forall x. P(x))  (what simplify makes of A' => ...): instantiate inside the disjunct
        ch = q.children()
        for k, c in enumerate(ch):
            if _has_quant(c):
                sub = []
                _inst(c, terms, depth + 1, sub, budget)
                rest = ch[:k] + ch[k + 1:]
                for x in sub:
                    out.append(z3.Or(rest + [x]))
        return
    if z3.is_implies(q) and (z3.is_quantifier(q.arg(1)) or z3.is_and(q.arg(1))):
        sub = []
        _inst(q.arg(1), terms, depth, sub, budget)
        for x in sub:
            out.append(z3.Implies(q.arg(0), x))
        return
    if z3.is_quantifier(q) and q.is_forall():
        n = q.num_vars()
        if n > 2:
            return
        import itertools
        sorts = [q.var_sort(i) for i in range(n)]
        cands = [[t for t in terms if t.sort() == so] for so in sorts]
        if any(not c for c in cands):
            return
        for combo in itertools.islice(itertools.product(*cands), 24):
            budget[0] -= 1
            body = z3.substitute_vars(q.body(), *reversed(combo))
            out.append(body)
            _inst(body, terms, depth + 1, out, budget)
        return


def instantiate_hyps(pc, sks, goal=None):
    """ground instances of universally quantified hypotheses at the skolem constants of the
    goal and at the index terms that occur in goal and instances (two rounds; the quantified
    hypotheses stay as well): the solver is not asked to find the instances"""
    out = []
    terms = list(sks)
    if goal is not None:
        terms += _index_terms([goal])
    if not terms:
        return out
    budget = [400]
    for p in pc:
        _inst(p, terms, 0, out, budget)
    # second round: index terms that the first round produced, e.g. src(sk)
    seen = {t.get_id() for t in terms}
    new_terms = [t for t in _index_terms(out) if t.get_id() not in seen][:8]
    if new_terms:
        out2 = []
        for p in pc:
            _inst(p, new_terms, 0, out2, budget)
        out += out2
    return out


def _consts(exprs, limit=4000):
    seen, out, stack = set(), [], list(exprs)
    n = 0
    while stack and n < limit:
        e = stack.pop()
        n += 1
        if e.get_id() in seen:
            continue
        seen.add(e.get_id())
        if z3.is_quantifier(e):
            stack.append(e.body())
            continue
        if z3.is_const(e) and e.decl().kind() == z3.Z3_OP_UNINTERPRETED:
            out.append(e)
        stack.extend(e.children())
    return out


def witness_exists(goal, pc):
    """exists w. P(w) as a goal: add the instances P(t) for the constants t of w's sort that
    occur on the path as extra disjuncts (each implies the existential, so this is sound)"""
    def rec(g, depth=0):
        if depth > 6:
            return g
        if z3.is_quantifier(g) and g.is_exists() and g.num_vars() == 1:
            so = g.var_sort(0)
            cands = [c for c in _consts(list(pc) + [goal]) if c.sort() == so and not str(c).startswith("k!")][:10]
            return z3.Or([g] + [z3.substitute_vars(g.body(), c) for c in cands])
        if z3.is_and(g):
            return z3.And([rec(c, depth + 1) for c in g.children()])
        if z3.is_or(g):
            return z3.Or([rec(c, depth + 1) for c in g.children()])
        if z3.is_implies(g):
            return z3.Implies(g.arg(0), rec(g.arg(1), depth + 1))
        return g
    return rec(goal)


def split_goal(g, depth=0):
    """A => (B1 and B2) becomes [A => B1, A => B2]; smaller string queries are the stable ones"""
    if depth > 4:
        return [g]
    if z3.is_and(g):
        out = []
        for c in g.children():
            out += split_goal(c, depth + 1)
        return out
    if z3.is_implies(g):
        return [z3.Implies(g.arg(0), c) for c in split_goal(g.arg(1), depth + 1)]
    return [g]


def _check_one(pc, insts, goal, timeout_ms, use_cvc5, cross=False):
    """returns (status, backend, model, smt2, hash).  Schedule: short attempts under several
    random seeds first (the sequence solver is erratic, a lucky seed answers in ms), then the
    full budget, then cvc5."""
    h = None
    smt2 = None
    short = min(3000, timeout_ms)
    # first a quantifier-free attempt: the ground hypotheses and the generated instances only (fewer
    # hypotheses, so 'unsat' is sound); quantified hypotheses often send the solver into 'unknown'
    # although the instances already at hand suffice
    if not _has_quant(goal) and any(_has_quant(p) for p in pc):
        s0 = z3.Solver()
        s0.set("timeout", short)
        for p in pc:
            if not _has_quant(p):
                s0.add(p)
        for i in insts:
            if not _has_quant(i):
                s0.add(i)
        s0.add(z3.Not(goal))
        if guarded_check(s0, short) == z3.unsat:
            return "discharged", "z3", None, None, hashlib.sha256(s0.sexpr().encode()).hexdigest()[:16]
    schedule = [(0, short), (7, short), (13, short), (29, timeout_ms)]
    cvc5_sat = False
    for k, (seed, tmo) in enumerate(schedule):
        s = z3.Solver()
        s.set("timeout", tmo)
        if seed:
            s.set("random_seed", seed)
        for p in pc:
            s.add(p)
        for i in insts:
            s.add(i)
        s.add(z3.Not(goal))
        if h is None:
            h = hashlib.sha256(s.sexpr().encode()).hexdigest()[:16]
        r = guarded_check(s, tmo)
        if r == z3.unsat:
            # z3's sequence solver has answered unsat on a satisfiable query once (see
            # tools/z3_unsound_seq_example.smt2): unsat answers over general sequences are re-asked
            # of cvc5 (always in the thorough tier); a definite disagreement is a checker error
            txt = None
            if cross or use_cvc5:
                txt = s.to_smt2()
            if txt is not None and (cross or "seq.unit" in txt):
                r2 = run_cvc5(txt, 2000 if not cross else min(timeout_ms, 20000))
                if r2 == "sat":
                    return "disagree", "z3:unsat/cvc5:sat", None, txt, h
                if r2 == "unsat":
                    return "discharged", "z3,cvc5", None, None, h
            return "discharged", "z3", None, None, h
        if r == z3.sat:
            mdl = s.model()
            if model_ok(mdl, list(pc) + list(insts) + [z3.Not(goal)]):
                return "failed", "z3", mdl, s.to_smt2(), h
            # the sequence solver occasionally answers sat with a model that falsifies a
            # hypothesis: such an answer is discarded (treated as unknown for this attempt)
            continue
        if k == 0 and use_cvc5:
            smt2 = s.to_smt2()
            if "last_indexof" not in smt2:
                r2 = run_cvc5(smt2, short)
                if r2 == "unsat":
                    return "discharged", "cvc5", None, None, h
                if r2 == "sat":
                    # cvc5 gives no model to validate here: its "sat" only counts when z3 cannot decide the query within
                    # the whole schedule AND cvc5 repeats the answer (a lone "sat" for a query that z3 then proves unsat
                    # was observed once under heavy load and could not be reproduced: such an answer is not believed)
                    cvc5_sat = True
    if cvc5_sat and use_cvc5 and smt2 is not None:
        if run_cvc5(smt2, timeout_ms) == "sat":
            return "failed", "cvc5", None, smt2, h
        return "unknown", "z3+cvc5", None, smt2, h
    if use_cvc5 and smt2 is not None and "last_indexof" not in smt2:
        r2 = run_cvc5(smt2, timeout_ms)
        if r2 == "unsat":
            return "discharged", "cvc5", None, None, h
        if r2 == "sat" and run_cvc5(smt2, timeout_ms) == "sat":
            return "failed", "cvc5", None, smt2, h
    # the quantified hypotheses make a definite "sat" impossible for the solver; a model of the
    # quantifier-free part (plus the ground instances) is still a *candidate* counterexample.
    # It is only ever reported after the native replay reproduces it on the real code.
    qf = [p for p in pc if not _has_quant(p)]
    if len(qf) != len(pc):
        s = z3.Solver()
        s.set("timeout", timeout_ms)
        for p in qf:
            s.add(p)
        for i in insts:
            if not _has_quant(i):
                s.add(i)
        s.add(z3.Not(goal))
        if guarded_check(s, timeout_ms) == z3.sat and model_ok(s.model(), qf + [z3.Not(goal)]):
            mdl = s.model()
            # does the candidate also satisfy the quantified hypotheses?  (z3 can often evaluate a quantified formula under a
            # complete model.)  If every one evaluates to true the model is a genuine model of the whole query: a definite
            # refutation.  Otherwise it stays a candidate: reported only if the native replay reproduces it.
            definite = True
            for p_ in pc:
                if _has_quant(p_):
                    try:
                        v_ = mdl.eval(p_, model_completion=True)
                    except z3.Z3Exception:
                        v_ = None
                    if v_ is None or not z3.is_true(v_):
                        definite = False
                        break
            be = "z3(model of the quantifier-free part, quantified hypotheses hold in it)" if definite else \
                "z3(candidate: quantified hypotheses dropped)"
            return "failed", be, mdl, s.to_smt2(), h
    return "unknown", "z3" + ("+cvc5" if use_cvc5 else ""), None, smt2, h


def model_ok(mdl, formulas):
    """every quantifier-free formula must evaluate to true under the model"""
    for f in formulas:
        if _has_quant(f):
            continue
        try:
            v = z3.simplify(mdl.eval(f, model_completion=True))
        except z3.Z3Exception:
            continue
        if z3.is_false(v):
            return False
    return True


def _has_quant(e):
    stack, seen = [e], set()
    while stack:
        x = stack.pop()
        if x.get_id() in seen:
            continue
        seen.add(x.get_id())
        if z3.is_quantifier(x):
            return True
        stack.extend(x.children())
    return False


def solve_vc(vc, timeout_ms=10000, use_cvc5=True, want_smt2=False, cross=False):
    t0 = time.time()
    goal = z3.simplify(vc.goal)
    if z3.is_true(goal):
        return Verdict(vc.name, "discharged", "simplifier", time.time() - t0, meta=vc.meta, trivial=True,
                       smt_hash="true")
    goal, sks = skolemize_goal(goal)
    insts = instantiate_hyps(vc.pc, sks, goal)
    parts = split_goal(goal)
    backends = set()
    hashes = []
    worst = "discharged"
    model = None
    smt2 = None
    for g in parts:
        g = witness_exists(g, vc.pc)
        st, be, mdl, s2, h = _check_one(vc.pc, insts, g, timeout_ms, use_cvc5, cross)
        hashes.append(h)
        backends.add(be)
        if st == "discharged" and cross and s2 is None:
            pass
        if st == "disagree":
            worst, smt2 = "disagree", s2
            break
        if st == "failed":
            worst, model, smt2 = "failed", mdl, s2
            break
        if st == "unknown":
            worst = "unknown"
            smt2 = s2
    h = hashlib.sha256("".join(x or "" for x in hashes).encode()).hexdigest()[:16]
    return Verdict(vc.name, worst, "+".join(sorted(backends)) if worst != "discharged" else ",".join(sorted(backends)),
                   time.time() - t0, model=model, meta=vc.meta, smt_hash=h, smt2=smt2 if (want_smt2 or worst != "discharged") else None)


def run_cvc5(smt2, timeout_ms):
    if not os.path.exists(CVC5):
        return "unknown"
    # z3 prints (check-sat) at the end; make sure a logic is set for cvc5
    text = "(set-logic ALL)\n" + smt2.replace("seq.nth_i", "seq.nth").replace("seq.nth_u", "seq.nth")
    if "last_indexof" in text:
        return "unknown"
    with tempfile.NamedTemporaryFile("w", suffix=".smt2", delete=False) as f:
        f.write(text)
        path = f.name
    try:
        p = subprocess.run([CVC5, "--lang=smt2", "--strings-exp", f"--tlimit={timeout_ms}", path],
                           capture_output=True, text=True, timeout=timeout_ms / 1000 + 5)
        out = p.stdout.strip().splitlines()
        if out and out[0] in ("sat", "unsat"):
            return out[0]
        return "unknown"
    except Exception:
        return "unknown"
    finally:
        os.unlink(path)


# ------------------------------------------------------------------ model -> python values
_OBJDEPTH = [0]


def concretize(v, model):
    """best-effort concrete Python value (JSON-describable) for a symbolic value"""
    ev = lambda z: model.eval(z, model_completion=True)   # noqa
    if v is NONE:
        return None
    if isinstance(v, VInt):
        return ev(v.z).as_long()
    if isinstance(v, VBool):
        return bool(z3.is_true(ev(v.z)))
    if isinstance(v, VReal):
        r = ev(v.z)
        try:
            return float(r.as_fraction())
        except Exception:
            return float(r.as_decimal(12).rstrip("?"))
    if isinstance(v, VStr):
        s = decode_z3_string(ev(v.z).as_string())
        if v.kind == "bytes":
            return {"__bytes__": [ord(c) for c in s]}
        return s
    if isinstance(v, VOpt):
        if z3.is_true(ev(v.isnone)):
            return None
        return concretize(v.inner, model)
    if isinstance(v, VUnion):
        for c, x in v.alts:
            if z3.is_true(ev(c)):
                return concretize(x, model)
        return None
    if isinstance(v, (VJson, VJsonDict)):
        return json_value(ev(v.z), model)
    if isinstance(v, VTuple):
        return {"__tuple__": [concretize(x, model) for x in v.items], "nt": v.ntname}
    if isinstance(v, VList):
        return [concretize(x, model) for x in v.items]
    if isinstance(v, VSeq):
        z = ev(v.z)
        n = ev(z3.Length(v.z)).as_long()
        return [concretize(from_z3(z3.simplify(ev(v.z[i])), v.elem), model) for i in range(min(n, 64))]
    if isinstance(v, VObj):
        # nested collaborator objects (ghost fields of boundary models): two levels, no cycles
        depth = _OBJDEPTH[0]
        out = {}
        for k, x in v.fields.items():
            if isinstance(x, VObj):
                if depth >= 2 or any(isinstance(y, VObj) for y in x.fields.values()):
                    continue
                try:
                    _OBJDEPTH[0] = depth + 1
                    out[k] = concretize(x, model)
                except Exception:
                    pass
                finally:
                    _OBJDEPTH[0] = depth
                continue
            if isinstance(x, (VFunc, VClass, VExt, VBoundExt)):
                continue
            out[k] = concretize(x, model)
        return {"__obj__": v.cls, "fields": out}
    if isinstance(v, VOpaque):
        return {"__opaque__": v.name, "id": str(ev(v.z))}
    if isinstance(v, VSet):
        out = {"__set__": str(ev(v.z))}
        try:
            keys, dflt = _array_true_keys(ev(v.z))
            if not dflt:
                out["members"] = [concretize(from_z3(k, v.elem), model) for k in keys]
        except Exception:
            pass
        return out
    if isinstance(v, VMap):
        out = {"__map__": str(ev(v.present))}
        try:
            keys, dflt = _array_true_keys(ev(v.present))
            if not dflt:
                out["items"] = [[concretize(from_z3(k, v.kt), model),
                                 concretize(from_z3(z3.simplify(ev(z3.Select(v.val, k))), v.vt), model)] for k in keys]
        except Exception:
            pass
        return out
    if isinstance(v, VDict):
        return {k: concretize(x, model) for k, x in v.d.items()}
    return {"__unknown__": repr(v)}


def _array_true_keys(a):
    """explicit keys mapped to True in an evaluated Array(K -> Bool) model value (Store chain over a constant array)"""
    stores = []
    a = z3.simplify(a)
    while z3.is_store(a):
        stores.append((a.arg(1), a.arg(2)))
        a = a.arg(0)
    if not z3.is_K(a):
        raise ValueError("array model is not a Store chain")
    dflt = z3.is_true(a.arg(0))
    seen, keys = set(), []
    for k, val in stores:            # outermost store first: it wins
        ks = str(k)
        if ks in seen:
            continue
        seen.add(ks)
        if z3.is_true(val):
            keys.append(k)
    return keys, dflt


def json_value(z, model, depth=0):
    ev = lambda t: z3.simplify(model.eval(t, model_completion=True))   # noqa
    if depth > 6:
        return None
    if z3.is_true(ev(J.is_jnull(z))):
        return None
    if z3.is_true(ev(J.is_jbool(z))):
        return bool(z3.is_true(ev(J.b(z))))
    if z3.is_true(ev(J.is_jint(z))):
        return ev(J.i(z)).as_long()
    if z3.is_true(ev(J.is_jreal(z))):
        r = ev(J.r(z))
        try:
            f = float(r.as_fraction())
        except Exception:
            f = 0.5
        return f if f != int(f) else f + 0.0
    if z3.is_true(ev(J.is_jstr(z))):
        return decode_z3_string(ev(J.s(z)).as_string())
    if z3.is_true(ev(J.is_jlist(z))):
        l = J.l(z)
        n = ev(z3.Length(l)).as_long()
        return [json_value(ev(l[i]), model, depth + 1) for i in range(min(n, 16))]
    # dict: walk the array term
    d = ev(J.d(z))
    out = {}
    _walk_array(d, out, model, depth)
    return out


def _walk_array(a, out, model, depth):
    ev = lambda t: z3.simplify(model.eval(t, model_completion=True))   # noqa
    n = 0
    while z3.is_store(a) and n < 64:
        base, k, v = a.children()
        key = decode_z3_string(ev(k).as_string())
        if key not in out:
            if z3.is_true(ev(OJ.is_present(v))):
                out[key] = json_value(ev(OJ.v(v)), model, depth + 1)
            else:
                out[key] = _ABSENT
        a = base
        n += 1
    if z3.is_K(a):
        dv = a.children()[0]
        if z3.is_true(ev(OJ.is_present(dv))):
            out["__every_other_key__"] = json_value(ev(OJ.v(dv)), model, depth + 1)
    elif z3.is_as_array(a) or z3.is_quantifier(a):
        out["__unreadable__"] = str(a)[:200]
    for k in [k for k, v in out.items() if v is _ABSENT]:
        del out[k]


class _Abs:
    pass


_ABSENT = _Abs()
