"""A small process pool for solver work.

concurrent.futures / multiprocessing.Pool hang for ever when a worker dies or dead-locks inside the
solver (both were observed: OOM-killed workers, a z3 timer thread wedged after an interrupt).  This
pool forks plain worker processes from a thread-free parent, gives every unit a wall-clock deadline,
kills and replaces a worker that exceeds it or dies, retries the unit once in the fresh worker and
otherwise hands back a crash record made by `on_fail(unit, reason)`.

`run(f, units, jobs, ...)` also supports a growing queue: `expand(result)` may return more units."""
import multiprocessing as mp
import multiprocessing.connection as mpc
import os
import time
import traceback
from collections import deque


def _loop(conn, f):
    try:
        import faulthandler
        faulthandler.enable()       # a crash inside the solver library leaves the Python stack on stderr
    except Exception:
        pass
    while True:
        try:
            msg = conn.recv()
        except (EOFError, OSError):
            return
        if msg is None:
            return
        k, x = msg
        try:
            r = ("ok", f(x))
        except BaseException:       # noqa - report everything, the parent decides
            r = ("exc", traceback.format_exc())
        try:
            conn.send((k, r))
        except Exception:
            try:
                conn.send((k, ("exc", "result could not be sent back:\n" + traceback.format_exc())))
            except Exception:
                return


class _W:
    def __init__(self, ctxm, f):
        self.conn, child = ctxm.Pipe(duplex=True)
        self.proc = ctxm.Process(target=_loop, args=(child, f), daemon=True)
        self.proc.start()
        child.close()
        self.job = None
        self.since = 0.0

    def kill(self):
        try:
            self.proc.kill()
        except Exception:
            pass
        try:
            self.proc.join(2)
        except Exception:
            pass
        try:
            self.conn.close()
        except Exception:
            pass


def run(f, units, jobs, deadline_s=None, on_fail=None, expand=None, retries=2):
    """results in submission order (expanded units appended in the order they were produced)"""
    deadline_s = float(os.environ.get("VERIF_UNIT_DEADLINE", deadline_s or 900))
    on_fail = on_fail or (lambda x, why: {"crash": why})
    units = list(units)
    if jobs <= 1 and not os.environ.get("VERIF_POOL_ALWAYS"):
        out, i = [], 0
        while i < len(units):
            r = f(units[i])
            out.append(r)
            if expand:
                units += list(expand(r))
            i += 1
        return out
    ctxm = mp.get_context("fork")
    results = {}
    tries = {}
    todo = deque(range(len(units)))
    workers = [_W(ctxm, f) for _ in range(max(1, min(jobs, len(units))))]

    def finish(k, r):
        results[k] = r
        if expand:
            for u in expand(r):
                units.append(u)
                todo.append(len(units) - 1)

    def fail(w, why):
        k = w.job
        w.kill()
        workers[workers.index(w)] = _W(ctxm, f)
        if k is None:
            return
        tries[k] = tries.get(k, 0) + 1
        if tries[k] <= retries:
            todo.appendleft(k)
        else:
            finish(k, on_fail(units[k], why))

    try:
        while todo or any(w.job is not None for w in workers):
            while len(workers) < min(jobs, len(todo) + sum(w.job is not None for w in workers)):
                workers.append(_W(ctxm, f))
            for w in workers:
                if w.job is None and todo:
                    k = todo.popleft()
                    try:
                        w.conn.send((k, units[k]))
                        w.job, w.since = k, time.time()
                    except Exception:
                        w.job = k
                        fail(w, "worker process could not be reached")
            busy = [w for w in workers if w.job is not None]
            if not busy:
                continue
            ready = mpc.wait([w.conn for w in busy], timeout=1.0)
            now = time.time()
            for w in list(busy):
                if w.conn in ready:
                    try:
                        k, (st, val) = w.conn.recv()
                    except (EOFError, OSError):
                        fail(w, "worker process died while running this unit (killed, e.g. out of memory, or crashed in the solver)")
                        continue
                    w.job = None
                    if st == "ok":
                        finish(k, val)
                    else:
                        finish(k, on_fail(units[k], val))
                elif not w.proc.is_alive():
                    fail(w, "worker process died while running this unit (killed, e.g. out of memory, or crashed in the solver)")
                elif now - w.since > deadline_s:
                    fail(w, f"unit exceeded its wall-clock deadline of {deadline_s:.0f}s (solver wedged?)")
    finally:
        for w in workers:
            try:
                w.conn.send(None)
            except Exception:
                pass
        t_end = time.time() + 2
        for w in workers:
            w.proc.join(max(0.0, t_end - time.time()))
            if w.proc.is_alive():
                w.kill()
    return [results[k] for k in range(len(units))]
