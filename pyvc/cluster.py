"""Composed-machine verifier (DESIGN 3): an object graph of Automat machines and plain
classes, verified as an inductive invariant over *entry points* (everything the
environment can invoke).  The transition tables and every output body are the real ones,
executed by the same symbolic interpreter; calls between objects of the cluster are
inlined, calls that leave it are boundary contracts.

Invariant = conjunction of clauses over *components* (machine states, tracked booleans,
None-ness, emptiness, ghost flags): unary and pairwise exclusions, inferred Houdini-style
and then checked as a given annotation.  Each cut point (the entry-point boundary, and
every loop head inside cluster code) has its own clause set.
"""
import ast
import itertools
import json
import time
import z3

from .values import *     # noqa
from .ctx import Ctx, PathEnd, guarded_check
from .interp import Interp, Frame, PyRaise, ReturnSig, snapshot
from .automat import AutomatSupport
from . import source


_SHARED = {}     # per-process caches (placeholder literals, clause-set formulas); one engine per process


def ctor_closure(cnode):
    """the constructor of a class as the interpreter sees it: __init__ / __attrs_post_init__ and, transitively, the
    methods of the same class they call on self (e.g. Boss._init_other_state)"""
    meths = {it.name: it for it in cnode.body if isinstance(it, ast.FunctionDef)}
    out, todo = [], [n for n in ("__init__", "__attrs_post_init__") if n in meths]
    seen = set(todo)
    while todo:
        m = meths[todo.pop(0)]
        out.append(m)
        for node in ast.walk(m):
            if isinstance(node, ast.Call) and isinstance(node.func, ast.Attribute) and isinstance(node.func.value, ast.Name) \
                    and node.func.value.id == "self" and node.func.attr in meths and node.func.attr not in seen:
                seen.add(node.func.attr)
                todo.append(node.func.attr)
    return out


class Component:
    """something with a small finite domain that invariant clauses talk about"""

    def __init__(self, cid, kind, obj, field, domain):
        self.cid = cid
        self.kind = kind      # state | bool | isnone | empty | ghost
        self.obj = obj
        self.field = field
        self.domain = domain  # list of python values (state names / True,False)


class ClusterSpec:
    def __init__(self):
        self.objects = {}       # short name -> (relpath, class)
        self.fields = {}        # class -> {field: type}   tracked mutable fields
        self.init = {}          # class -> {field: python-expression source for the initial value}
        self.const_fields = {}  # class -> {field: type}   set once at construction (symbolic constants)
        self.wire_from = None   # (relpath, "Boss._build_workers"): where the wire() calls are read from
        self.root = None        # short name of the object whose method contains the wiring
        self.ghost = {}         # ghost field -> (type, initial python expr source)
        self.extra_components = []   # (cid, kind, objname, field)
        self.no_component = set()    # (class, field) not to be used in clauses


class Cluster:
    def __init__(self, spec, reg):
        self.spec = spec
        self.reg = reg
        if reg.automat is None:
            reg.automat = AutomatSupport()
        self.am = reg.automat
        self.classes = {}
        for nm, (rel, cls) in spec.objects.items():
            cd = source.find_class(rel, cls)
            if cd is None:
                raise LookupError(f"unbound cluster object {nm}: class {cls} not found in {rel}")
            self.classes[nm] = cd
            reg.register_repo_class(cd)
            self._discover_fields(cd)
        self.components = self._components()

    def _discover_fields(self, cd):
        """a field the spec does not declare but the constructor initialises with a bool/int/str literal is
        tracked automatically (so a change that introduces a flag stays within reach: the flag becomes a
        component of the invariant template like any declared bool field)"""
        spec = self.spec
        known = set(spec.fields.get(cd.name, {})) | set(spec.const_fields.get(cd.name, {}))
        self.discovered = getattr(self, "discovered", [])
        for item in ctor_closure(cd.node):
            for st in item.body:
                if not (isinstance(st, ast.Assign) and len(st.targets) == 1 and isinstance(st.targets[0], ast.Attribute)
                        and isinstance(st.targets[0].value, ast.Name) and st.targets[0].value.id == "self"
                        and isinstance(st.value, ast.Constant)):
                    continue
                f, v = st.targets[0].attr, st.value.value
                if f in known:
                    continue
                t = "bool" if isinstance(v, bool) else "int" if isinstance(v, int) else "str" if isinstance(v, str) else None
                if t is None:
                    continue
                spec.fields.setdefault(cd.name, {})[f] = t
                spec.init.setdefault(cd.name, {})[f] = repr(v)
                known.add(f)
                self.discovered.append(f"{cd.name}.{f}")

    # -------------------------------------------------------------- object graph
    def build(self, it):
        """objects with wiring; fields not set"""
        objs = {}
        for nm, cd in self.classes.items():
            objs[nm] = VObj(cd.name)
        g = VObj("Ghost")
        objs["ghost"] = g
        if getattr(self.spec, "prelink", None):
            self.spec.prelink(objs)
        # wiring: read the wire() calls from the root's builder method and execute the real wire() bodies
        if self.spec.wire_from:
            fd = source.find_func(self.spec.wire_from)
            byattr = {}
            for node in ast.walk(fd.node):
                if isinstance(node, ast.Assign) and isinstance(node.targets[0], ast.Attribute) \
                        and isinstance(node.targets[0].value, ast.Name) and node.targets[0].value.id == "self" \
                        and isinstance(node.value, ast.Call) and isinstance(node.value.func, ast.Name):
                    for nm, cd in self.classes.items():
                        if cd.name == node.value.func.id:
                            byattr[node.targets[0].attr] = nm
            root = objs[self.spec.root]
            for attr, nm in byattr.items():
                root.fields[attr] = objs[nm]
            ext = {}
            for attr, clsname in getattr(self.spec, "externals", {}).items():
                ext[attr] = root.fields[attr] = VObj(clsname)
            self.byattr = byattr
            for node in ast.walk(fd.node):
                if isinstance(node, ast.Expr) and isinstance(node.value, ast.Call) and isinstance(node.value.func, ast.Attribute) \
                        and node.value.func.attr == "wire":
                    tgt = node.value.func.value
                    if isinstance(tgt, ast.Attribute) and tgt.attr in byattr:
                        o = objs[byattr[tgt.attr]]
                        args = []
                        for a in node.value.args:
                            if isinstance(a, ast.Name) and a.id == "self":
                                args.append(root)
                            elif isinstance(a, ast.Attribute) and a.attr in byattr:
                                args.append(objs[byattr[a.attr]])
                            elif isinstance(a, ast.Attribute) and a.attr in ext:
                                args.append(ext[a.attr])
                            else:
                                raise OutOfSubset(f"wire argument {ast.unparse(a)}")
                        m = it.find_method(o.cls, "wire")
                        it.call_func(VFunc(m, o), args, {}, None)
        return objs

    def set_initial(self, it, objs):
        for nm, cd in self.classes.items():
            o = objs[nm]
            self.am.init_state(it, o, cd)
            for f, t in self.spec.const_fields.get(cd.name, {}).items():
                if f not in o.fields:
                    o.fields[f] = it.fresh(t, f"{nm}.{f}")
            for f, t in self.spec.fields.get(cd.name, {}).items():
                src = self.spec.init.get(cd.name, {}).get(f)
                real = self.ctor_literal(cd, f)
                if real is not None:
                    src = real       # what the real constructor stores wins over the declared default
                if src is None:
                    raise OutOfSubset(f"no initial value declared for {cd.name}.{f}")
                o.fields[f] = self.initial_value(it, src, t)
        g = objs["ghost"]
        for f, (t, src) in self.spec.ghost.items():
            g.fields[f] = self.initial_value(it, src, t)

    def ctor_literal(self, cd, field):
        """source text of the value the real constructor (with the helpers it calls on self) stores into self.<field>, when
        that is a literal or an empty container; None if the constructor does not set the field that way (the declared
        initial value of the cluster spec is used then, e.g. for fields that only outputs ever assign)"""
        found = None
        for m in ctor_closure(cd.node):
            for st in ast.walk(m):
                if isinstance(st, ast.Assign) and len(st.targets) == 1 and isinstance(st.targets[0], ast.Attribute) \
                        and isinstance(st.targets[0].value, ast.Name) and st.targets[0].value.id == "self" \
                        and st.targets[0].attr == field:
                    v = st.value
                    ok = isinstance(v, ast.Constant) or \
                        (isinstance(v, (ast.Dict, ast.List, ast.Set, ast.Tuple)) and not getattr(v, "keys", None) and
                         not getattr(v, "elts", None)) or \
                        (isinstance(v, ast.Call) and not v.args and not v.keywords and
                         ast.unparse(v.func) in ("set", "dict", "list", "deque", "collections.deque"))
                    if not ok:
                        return None
                    found = ast.unparse(v)
                    if found in ("dict()",):
                        found = "{}"
                    if found in ("list()", "deque()", "collections.deque()"):
                        found = "[]"
        return found

    def initial_value(self, it, src, t):
        v = it.eval(ast.parse(src, mode="eval").body, Frame(None, None))
        return self.coerce(it, v, t)

    def coerce(self, it, v, t):
        """bring a concrete initial value into the symbolic representation of its declared type"""
        if isinstance(t, str) and t.startswith("enum:"):
            return v
        t = parse_type(t)
        if t.kind == "opt":
            if v is NONE:
                inner = it.fresh(t.args[0], "unset")
                return VOpt(z3.BoolVal(True), inner)
            return VOpt(z3.BoolVal(False), self.coerce(it, v, t.args[0]))
        if t.kind in ("seq", "list", "deque") and isinstance(v, VList):
            return VSeq(to_z3(v, t), t.args[0])
        if t.kind == "set" and isinstance(v, VSet) and v.z is None:
            return VSet(z3.K(sort_of(t.args[0]), z3.BoolVal(False)), t.args[0])
        if t.kind == "dict" and isinstance(v, VDict) and not v.d:
            p = z3.K(sort_of(t.args[0]), z3.BoolVal(False))
            vals = z3.Const(it.ctx.namer("emptyval"), z3.ArraySort(sort_of(t.args[0]), sort_of(t.args[1])))
            return VMap(p, vals, t.args[0], t.args[1])
        return v

    def havoc(self, it, objs, tag="pre"):
        """an arbitrary state of the cluster: every machine state and every tracked field fresh"""
        for nm, cd in self.classes.items():
            o = objs[nm]
            self.am.fresh_state(it, o, cd, f"{tag}.{nm}")
            for f, t in self.spec.const_fields.get(cd.name, {}).items():
                if f not in o.fields:
                    o.fields[f] = it.fresh(t, f"{nm}.{f}")
            for f, t in self.spec.fields.get(cd.name, {}).items():
                cur = o.fields.get(f)
                nv = it.fresh(t, f"{tag}.{nm}.{f}")
                if isinstance(cur, (VSeq, VSet)) and isinstance(nv, type(cur)):
                    cur.z = nv.z           # keep holder identity
                elif isinstance(cur, VMap) and isinstance(nv, VMap):
                    cur.present, cur.val = nv.present, nv.val
                else:
                    o.fields[f] = nv
        g = objs["ghost"]
        for f, (t, src) in self.spec.ghost.items():
            g.fields[f] = it.fresh(t, f"{tag}.ghost.{f}")

    # -------------------------------------------------------------- components / clauses
    def _components(self):
        comps = []
        for nm, cd in self.classes.items():
            m = self.am.machine_of(cd)
            if m is not None:
                comps.append(Component(f"{nm}.state", "state", nm, "__state", list(m.states)))
            for f, t in self.spec.fields.get(cd.name, {}).items():
                if (cd.name, f) in self.spec.no_component:
                    continue
                t = parse_type(t)
                if t.kind == "bool":
                    comps.append(Component(f"{nm}.{f}", "bool", nm, f, [True, False]))
                elif t.kind == "opt" and t.args[0].kind in ("str", "bytes"):
                    # None or empty: what `assert self._x` / `if self._x` distinguish
                    comps.append(Component(f"{nm}.{f}.falsy", "falsy", nm, f, [True, False]))
                    comps.append(Component(f"{nm}.{f}.isnone", "isnone", nm, f, [True, False]))
                elif t.kind == "opt":
                    comps.append(Component(f"{nm}.{f}.isnone", "isnone", nm, f, [True, False]))
                elif t.kind in ("seq", "list", "deque", "set", "dict"):
                    comps.append(Component(f"{nm}.{f}.empty", "empty", nm, f, [True, False]))
        for (cid, kind, onm, f, arg) in getattr(self.spec, "extra_components", []):
            c = Component(cid, kind, onm, f, arg if kind == "mapped" else [True, False])
            c.arg = arg
            comps.append(c)
        for f, (t, src) in self.spec.ghost.items():
            if t.startswith("enum:"):
                comps.append(Component(f"ghost.{f}", "enum", "ghost", f, t[5:].split(",")))
            elif parse_type(t).kind == "bool":
                comps.append(Component(f"ghost.{f}", "bool", "ghost", f, [True, False]))
            elif parse_type(t).kind in ("set", "seq", "dict"):
                comps.append(Component(f"ghost.{f}.empty", "empty", "ghost", f, [True, False]))
        return comps

    def comp_eq(self, it, objs, c, val):
        """z3 Bool: component c has value val in the current state"""
        o = objs[c.obj]
        v = o.fields[c.field]
        if c.kind in ("state", "enum"):
            return v.z == c.domain.index(val)
        if c.kind == "bool":
            t = it.truth(v)
            return t if val else z3.Not(t)
        if c.kind == "isnone":
            isn = v.isnone if isinstance(v, VOpt) else z3.BoolVal(v is NONE)
            return isn if val else z3.Not(isn)
        if c.kind == "member":
            # a fixed key is in a set-valued field
            t = z3.Select(v.z, z3.StringVal(c.arg))
            return t if val else z3.Not(t)
        if c.kind == "mapped":
            # an optional string field seen through a fixed list of values (index 0 = none of them)
            names = c.domain
            vv = v.inner if isinstance(v, VOpt) else v
            isn = v.isnone if isinstance(v, VOpt) else z3.BoolVal(False)
            others = [z3.And(z3.Not(isn), vv.z == z3.StringVal(n)) for n in names[1:]]
            if names.index(val) == 0:
                return z3.Not(z3.Or(others))
            return others[names.index(val) - 1]
        if c.kind == "falsy":
            t = z3.Not(it.truth(v))
            return t if val else z3.Not(t)
        if c.kind == "empty":
            t = z3.Not(it.truth(v))
            return t if val else z3.Not(t)
        raise OutOfSubset(c.kind)

    def all_clauses(self):
        """the template: unary exclusions (c != v) and pairwise exclusions not(c1 == v1 and c2 == v2)"""
        out = []
        for c in self.components:
            for v in c.domain:
                out.append(((c.cid, v),))
        for c1, c2 in itertools.combinations(self.components, 2):
            for v1 in c1.domain:
                for v2 in c2.domain:
                    out.append(((c1.cid, v1), (c2.cid, v2)))
        return out

    # ---- fast path: the clause set as ONE formula over placeholder literals, instantiated per
    # state by a single substitution (building thousands of small z3 terms per path in Python
    # was the dominant cost)
    def placeholders(self):
        if "ph" not in _SHARED:
            _SHARED["ph"] = {}
            for c in self.components:
                for v in c.domain:
                    _SHARED["ph"][(c.cid, v)] = z3.Bool(f"L!{c.cid}!{v}")
        return _SHARED["ph"]

    def clause_ph(self, clause):
        memo = _SHARED.setdefault("clause", {})
        r = memo.get(clause)
        if r is None:
            ph = self.placeholders()
            lits = [ph[(cid, val)] for cid, val in clause]
            r = memo[clause] = z3.Not(z3.And(lits)) if len(lits) > 1 else z3.Not(lits[0])
        return r

    def literal_map(self, it, objs):
        comp = {c.cid: c for c in self.components}
        ph = self.placeholders()
        return [(p, self.comp_eq(it, objs, comp[cid], val)) for (cid, val), p in ph.items()]

    def conj_ph(self, keys, cache_key):
        memo = _SHARED.setdefault("conj", {})
        if cache_key not in memo:
            cls = [self.clause_ph(clause_from_key(k)) for k in keys]
            memo[cache_key] = fast_and(cls)
        return memo[cache_key]

    def clause_z3(self, it, objs, clause, cache=None):
        comp = {c.cid: c for c in self.components}
        lits = []
        for cid, val in clause:
            key = (cid, val)
            if cache is not None and key in cache:
                lits.append(cache[key])
                continue
            e = self.comp_eq(it, objs, comp[cid], val)
            if cache is not None:
                cache[key] = e
            lits.append(e)
        return z3.Not(z3.And(lits)) if len(lits) > 1 else z3.Not(lits[0])


def fast_and(exprs):
    """z3.And over a long list without the per-argument Python coercions"""
    n = len(exprs)
    if n == 0:
        return z3.BoolVal(True)
    if n == 1:
        return exprs[0]
    ctx = exprs[0].ctx
    arr = (z3.Ast * n)(*[e.as_ast() for e in exprs])
    return z3.BoolRef(z3.Z3_mk_and(ctx.ref(), n, arr), ctx)


def clause_key(cl):
    return json.dumps([[c, v] for c, v in cl])


def clause_from_key(k):
    return tuple((c, v) for c, v in json.loads(k))


def clause_text(cl):
    return "not(" + " and ".join(f"{c}=={v}" for c, v in cl) + ")"
