"""Models of Python builtins, methods of builtin types and the library calls the
repository makes.  Each is either exact for the encoding (documented in DESIGN 2.2)
or an explicit assumption recorded through reg.note()."""
import ast
import z3

from .values import *          # noqa
from .values import J, OJ
from . import interp as I
from . import regex as rx
from .interp import VJsonDict, _NOCONST, int_to_str

_uf = {}


def uf(name, *sorts):
    if name not in _uf:
        _uf[name] = z3.Function(name, *sorts)
    return _uf[name]


# ---------------------------------------------------------------- spec/byte helpers
def be_bytes(z, n):
    """big-endian n-byte string of int z (caller guarantees 0 <= z < 256**n)"""
    parts = []
    for i in reversed(range(n)):
        parts.append(z3.StrFromCode((z / (256 ** i)) % 256))
    return parts[0] if n == 1 else z3.Concat(*parts)


def be_int(s, n):
    tot = z3.IntVal(0)
    for i in range(n):
        tot = tot * 256 + z3.StrToCode(z3.SubString(s, i, 1))
    return tot


def be_enc_of(it, z, n):
    """n-byte big-endian encoding of z (0 <= z < 256**n): uninterpreted, ground contract instances"""
    f = uf("be_enc", IntS, IntS, StringS)
    g = uf("be_value", StringS, IntS)
    r = f(z, z3.IntVal(n))
    it.ctx.assume(z3.Length(r) == n)
    it.ctx.assume(g(r) == z)
    it.reg.note("big-endian integer <-> bytes (hex formatting + unhexlify, int(hexlify(b),16)): assumed mutually inverse")
    return r


def be_value_of(it, s):
    f = uf("be_enc", IntS, IntS, StringS)
    g = uf("be_value", StringS, IntS)
    n = g(s)
    it.ctx.assume(n >= 0)
    it.ctx.assume(f(n, z3.Length(s)) == s)
    return n


def be4_of(it, z):
    """struct.pack('>L', z) for 0 <= z < 2**32: uninterpreted, with the ground instances of
    its assumed contract (4 bytes; unpack is its inverse) added at each use"""
    f = uf("be4", IntS, StringS)
    g = uf("unbe4", StringS, IntS)
    r = f(z)
    it.ctx.assume(z3.Length(r) == 4)
    it.ctx.assume(g(r) == z)
    it.ctx.assume(z3.And(z == be_int(r, 4), *[z3.StrToCode(z3.SubString(r, i, 1)) <= 255 for i in range(4)]))
    it.reg.note("struct.pack/unpack('>L'): assumed contract (4 bytes, mutually inverse on 0..2**32-1)")
    return r


def unbe4_of(it, s):
    """struct.unpack('>L', s)[0] for len(s) == 4"""
    f = uf("be4", IntS, StringS)
    g = uf("unbe4", StringS, IntS)
    n = g(s)
    it.ctx.assume(z3.And(n >= 0, n < 2 ** 32))
    it.ctx.assume(z3.Implies(z3.Length(s) == 4, f(n) == s))
    # the definition itself (big-endian value of four bytes), so that counterexample models are
    # real byte strings; the proofs only need the two facts above
    it.ctx.assume(z3.Implies(z3.Length(s) == 4, z3.And(n == be_int(s, 4),
                                                       *[z3.StrToCode(z3.SubString(s, i, 1)) <= 255 for i in range(4)])))
    return n


# ---------------------------------------------------------------- isinstance
def isinstance_z(it, v, cls):
    """z3 Bool: isinstance(v, cls) for cls a VClass/VExt/VTuple of them"""
    if isinstance(cls, VTuple):
        return z3.Or([isinstance_z(it, v, c) for c in cls.items] + [z3.BoolVal(False)])
    name = cls.name if isinstance(cls, (VClass, VExt)) else None
    if name is None:
        raise OutOfSubset(f"isinstance against {cls!r}")
    name = name.replace("builtins.", "")
    if isinstance(v, VOpt):
        if name in ("NoneType", "type(None)"):
            return v.isnone
        return z3.And(z3.Not(v.isnone), isinstance_z(it, v.inner, cls))
    if isinstance(v, VUnion):
        return z3.Or([z3.And(c, isinstance_z(it, x, cls)) for c, x in v.alts])
    if isinstance(v, VJson):
        z = v.z
        return {"str": J.is_jstr(z), "int": z3.Or(J.is_jint(z), J.is_jbool(z)), "bool": J.is_jbool(z),
                "float": J.is_jreal(z), "list": J.is_jlist(z), "dict": J.is_jdict(z),
                "bytes": z3.BoolVal(False), "tuple": z3.BoolVal(False), "set": z3.BoolVal(False),
                "Exception": z3.BoolVal(False), "object": z3.BoolVal(True)}.get(name, z3.BoolVal(False))
    if isinstance(v, VJsonDict):
        return z3.BoolVal(name in ("dict", "object"))
    kinds = {
        "str": isinstance(v, VStr) and v.kind == "str",
        "bytes": isinstance(v, VStr) and v.kind == "bytes",
        "int": isinstance(v, (VInt, VBool)),
        "bool": isinstance(v, VBool),
        "float": isinstance(v, VReal),
        "list": isinstance(v, (VList, VSeq)),
        "tuple": isinstance(v, VTuple),
        "dict": isinstance(v, (VDict, VMap)),
        "set": isinstance(v, VSet),
        "object": True,
    }
    if name in kinds:
        return z3.BoolVal(bool(kinds[name]))
    if isinstance(v, VObj):
        return z3.BoolVal(it.reg.is_subclass(v.cls, name) or class_is_sub(it, v.cls, name))
    if isinstance(v, VTuple) and v.ntname:
        return z3.BoolVal(v.ntname == name)
    if isinstance(v, VOpaque):
        h = it.reg.ext_models.get("isinstance_opaque:" + v.name)
        if h is not None:
            return h(it, v, name)
        return z3.BoolVal(False)
    return z3.BoolVal(False)


def class_is_sub(it, clsname, base):
    cd = it.reg.repo_classes.get(clsname)
    n = 0
    while cd is not None and n < 10:
        if cd.name == base:
            return True
        cd = it.base_classdef(cd)
        n += 1
    return False


# ---------------------------------------------------------------- external calls
def call_ext(it, name, args, kwargs, fr, node):
    reg = it.reg
    if name.startswith("spec:"):
        return reg.spec_funcs[name[5:]](it, *args, **kwargs)
    h = reg.ext_models.get(name)
    if h is not None:
        return h(it, args, kwargs)
    short = name.replace("builtins.", "")
    f = BUILTIN_IMPL.get(short)
    if f is not None:
        return f(it, args, kwargs, fr)
    # zope interface adapters: IFoo(x) is the identity
    if name.startswith("repo:") is False and name.split(".")[-1].startswith("I") and len(args) == 1 and "_interfaces" in name:
        return args[0]
    raise OutOfSubset(f"unmodelled external call {name}")


def b_len(it, args, kw, fr):
    v = it.force(args[0])
    if isinstance(v, VJson):
        v = it.json_narrow(v)
    if isinstance(v, (VStr, VSeq)):
        return VInt(z3.Length(v.z))
    if isinstance(v, (VList, VTuple)):
        return VInt(len(v.items))
    if isinstance(v, VDict):
        return VInt(len(v.d))
    if isinstance(v, (VSet, VMap)):
        z = v.z if isinstance(v, VSet) else v.present
        f = uf("card_" + str(z.sort()), z.sort(), IntS)
        n = f(z)
        it.ctx.assume(n >= 0)
        it.ctx.assume((n == 0) == (z == z3.K(z.sort().domain(), z3.BoolVal(False))))
        return VInt(n)
    if v is NONE or isinstance(v, (VInt, VBool, VReal)):
        it.raise_("TypeError", VStr("object has no len()"))
    if isinstance(v, VJsonDict):
        n = z3.Int(it.ctx.namer("dictlen"))
        it.ctx.assume(n >= 0)
        return VInt(n)
    raise OutOfSubset(f"len of {v!r}")


def b_isinstance(it, args, kw, fr):
    v, cls = args
    cls = it.force(cls)
    return VBool(isinstance_z(it, v, cls))


def b_int(it, args, kw, fr):
    if not args:
        return VInt(0)
    v = it.force(args[0])
    if isinstance(v, VJson):
        v = it.json_narrow(v)
    if len(args) == 2 or "base" in kw:
        base = it.concrete(args[1] if len(args) == 2 else kw["base"])
        if base == 16 and isinstance(v, VStr):
            hx = getattr(v, "hex_of", None)
            if hx is not None:
                # int(hexlify(b), 16) == big-endian value of b
                if it.ctx.branch(z3.Length(hx[0]) == 0):
                    it.raise_("ValueError", VStr("invalid literal for int() with base 16: b''"))
                return VInt(be_value_of(it, hx[0]))
        raise OutOfSubset("int(x, base)")
    if isinstance(v, VInt):
        return v
    if isinstance(v, VBool):
        return VInt(it._num(v))
    if isinstance(v, VStr):
        # decimal digits only (ASCII); anything else: ValueError (Unicode digits and
        # surrounding whitespace/sign are also accepted by CPython: modelled as "some int")
        if getattr(it.reg, "regex_abstract", False):
            ok = uf("int_parses", StringS, BoolS)(v.z)
            if it.ctx.branch(ok, "int-parses"):
                return VInt(uf("int_of_str", StringS, IntS)(v.z))
            it.raise_("ValueError", VStr("invalid literal for int()"))
        isdec = z3.InRe(v.z, z3.Plus(z3.Range("0", "9")))
        if it.ctx.branch(isdec):
            return VInt(z3.StrToInt(v.z))
        r = z3.Int(it.ctx.namer("int_of_str"))
        if it.ctx.branch(z3.Bool(it.ctx.namer("int_parse_ok"))):
            return VInt(r)
        it.raise_("ValueError", VStr("invalid literal for int()"))
    if isinstance(v, VReal):
        return VInt(z3.ToInt(v.z))   # floor; python truncates: differs for negatives
    if v is NONE or isinstance(v, (VSeq, VList, VJsonDict, VDict)):
        it.raise_("TypeError", VStr("int() argument must be a string or a number"))
    raise OutOfSubset(f"int({v!r})")


def b_str(it, args, kw, fr):
    if not args:
        return VStr("")
    v = it.force(args[0])
    if isinstance(v, VStr) and v.kind == "str":
        return v
    if isinstance(v, VInt):
        return VStr(int_to_str(v.z), "str")
    if isinstance(v, VStr) and v.kind == "bytes" and len(args) >= 2:
        return decode_model(it, v, it.concrete(it.force(args[1])))
    it.ctx.note_imprecise("str() of a value that is not str/int")
    return VStr(z3.String(it.ctx.namer("str")), "str")


def str_format_model(it, s, args, kw, kind):
    """'..{}..{0}..{name}..'.format(...) with str/int arguments and no conversions or format specs"""
    import string as _string
    cf = it.concrete(s)
    if not isinstance(cf, str) or kind != "str":
        return None
    out, auto = [], 0
    try:
        fields = list(_string.Formatter().parse(cf))
    except ValueError:
        return None
    for lit, name, spec, conv in fields:
        if lit:
            out.append(z3.StringVal(lit))
        if name is None:
            continue
        if conv not in (None, "s") or spec not in ("", None, "d", "s"):
            return None
        if name == "":
            idx = auto
            auto += 1
            v = args[idx] if idx < len(args) else None
        elif name.isdigit():
            v = args[int(name)] if int(name) < len(args) else None
        else:
            v = (kw or {}).get(name)
        if v is None:
            return None
        v = it.force(v)
        if isinstance(v, VStr) and v.kind == "str" and spec in ("", None, "s"):
            out.append(v.z)
        elif isinstance(v, VInt) and spec in ("", None, "d"):
            out.append(int_to_str(v.z))
        else:
            return None
    if not out:
        return VStr(z3.StringVal(""), kind)
    return VStr(out[0] if len(out) == 1 else z3.Concat(*out), kind)


def b_repr(it, args, kw, fr):
    v = it.force(args[0]) if args else None
    if isinstance(v, VInt):
        return VStr(int_to_str(v.z), "str")
    it.ctx.note_imprecise("repr()")
    return VStr(z3.String(it.ctx.namer("repr")), "str")


def b_bool(it, args, kw, fr):
    return VBool(it.truth(args[0])) if args else VBool(False)


def b_bytes(it, args, kw, fr):
    if not args:
        return VStr(b"")
    v = it.force(args[0])
    if isinstance(v, VStr) and v.kind == "bytes":
        return v
    raise OutOfSubset("bytes(x)")


def _short_list_facts(it, s, present, ks):
    """quantifier-free consequences of `s lists exactly the members of present, each once` for lengths 0..3
    (instances of the quantified facts above; they let a solver build finite models for short runs)"""
    acc = z3.K(ks, z3.BoolVal(False))
    for n in range(4):
        if n:
            acc = z3.Store(acc, s[n - 1], z3.BoolVal(True))
        facts = [present == acc]
        facts += [s[a] != s[b] for a in range(n) for b in range(a + 1, n)]
        it.ctx.assume(z3.Implies(z3.Length(s) == n, z3.And(facts)))


def b_list(it, args, kw, fr):
    if not args:
        return VList([])
    v = it.force(args[0])
    if isinstance(v, (VList, VTuple)):
        return VList(list(v.items))
    if isinstance(v, VSeq):
        return VSeq(v.z, v.elem)
    if isinstance(v, VDict):
        return VList([it.const(k) for k in v.d])
    if isinstance(v, VSet):
        # arbitrary order: a sequence with the same members
        s = z3.Const(it.ctx.namer("list_of_set"), z3.SeqSort(sort_of(v.elem)))
        k = z3.Const("k!los", sort_of(v.elem))
        it.ctx.assume(z3.ForAll([k], z3.Contains(s, z3.Unit(k)) == v.z[k]))
        r = VSeq(s, v.elem)
        r.members_of = (v.z, v.elem)
        return r
    if isinstance(v, VMap):
        # list(d): the keys, each once (insertion order is not modelled: an arbitrary order)
        ks = sort_of(v.kt)
        s = z3.Const(it.ctx.namer("list_of_keys"), z3.SeqSort(ks))
        k = z3.Const("k!lok", ks)
        i, j = z3.Int("i!lok"), z3.Int("j!lok")
        it.ctx.assume(z3.ForAll([k], z3.Contains(s, z3.Unit(k)) == z3.Select(v.present, k)))
        it.ctx.assume(z3.ForAll([i, j], z3.Implies(z3.And(0 <= i, i < j, j < z3.Length(s)), s[i] != s[j])))
        _short_list_facts(it, s, v.present, ks)
        r = VSeq(s, v.kt)
        r.members_of = (v.present, v.kt)      # see Interp.unroll_bounded
        return r
    if isinstance(v, VJson):
        v = it.json_narrow(v)
        if isinstance(v, VSeq):
            return VSeq(v.z, v.elem)
        if v is NONE or isinstance(v, (VInt, VBool, VReal)):
            it.raise_("TypeError", VStr("object is not iterable"))
    raise OutOfSubset(f"list({v!r})")


def b_tuple(it, args, kw, fr):
    if not args:
        return VTuple([])
    v = it.force(args[0])
    if isinstance(v, (VList, VTuple)):
        return VTuple(list(v.items))
    if isinstance(v, VSeq):
        return VSeq(v.z, v.elem)    # immutable view; holder is a copy
    raise OutOfSubset(f"tuple({v!r})")


def b_dict(it, args, kw, fr):
    if not args:
        return VDict(dict(kw))
    v = it.force(args[0])
    if isinstance(v, VDict):
        d = dict(v.d)
        d.update(kw)
        return VDict(d)
    raise OutOfSubset("dict(x)")


def b_set(it, args, kw, fr):
    if not args:
        return VSet(None, None)     # untyped empty set: typed by the first add / by a declared type
    v = it.force(args[0])
    if isinstance(v, VSet):
        return VSet(v.z, v.elem)
    if isinstance(v, VSeq):
        k = z3.Const("k!sos", sort_of(v.elem))
        return VSet(z3.Lambda([k], z3.Contains(v.z, z3.Unit(k))), v.elem)
    raise OutOfSubset(f"set({v!r})")


def b_range(it, args, kw, fr):
    a = [it.force(x) for x in args]
    if len(a) == 1:
        return VRange(z3.IntVal(0), a[0].z)
    if len(a) == 2:
        return VRange(a[0].z, a[1].z)
    raise OutOfSubset("range step")


def b_minmax(which):
    def f(it, args, kw, fr):
        a = [it.force(x) for x in args]
        if len(a) == 1 and isinstance(a[0], (VList, VTuple)):
            a = a[0].items
        if len(a) >= 2 and all(isinstance(x, VInt) for x in a):
            r = a[0].z
            for x in a[1:]:
                r = z3.If(x.z < r, x.z, r) if which == "min" else z3.If(x.z > r, x.z, r)
            return VInt(r)
        if len(a) >= 2 and all(isinstance(x, (VInt, VReal)) for x in a):
            r = it._real(a[0])
            for x in a[1:]:
                xr = it._real(x)
                r = z3.If(xr < r, xr, r) if which == "min" else z3.If(xr > r, xr, r)
            return VReal(r)
        raise OutOfSubset(which)
    return f


def b_print(it, args, kw, fr):
    return NONE


def b_type(it, args, kw, fr):
    v = it.force(args[0])
    if isinstance(v, VObj):
        return VClass(v.cls, it.reg.repo_classes.get(v.cls))
    if isinstance(v, VStr):
        return VExt("builtins." + v.kind)
    if v is NONE:
        return VExt("builtins.NoneType")
    if isinstance(v, VBool):
        return VExt("builtins.bool")
    if isinstance(v, VInt):
        return VExt("builtins.int")
    raise OutOfSubset("type()")


def b_getattr(it, args, kw, fr):
    o = it.force(args[0])
    nm = it.concrete(it.force(args[1]))
    if nm is _NOCONST and isinstance(o, VObj) and isinstance(it.force(args[1]), VStr):
        # symbolic attribute name: one path per attribute of the class it can equal
        namez = it.force(args[1]).z
        cands = list(o.fields)
        cd = it.reg.repo_classes.get(o.cls)
        n = 0
        while cd is not None and n < 8:
            cands += list(cd.methods)
            cd = it.base_classdef(cd)
            n += 1
        for c in dict.fromkeys(cands):
            if it.ctx.branch(namez == z3.StringVal(c), f"getattr=={c}"):
                return it.getattr(o, c)
        if len(args) > 2:
            return args[2]
        it.raise_("AttributeError", VStr("no such attribute"))
    if nm is _NOCONST:
        raise OutOfSubset("getattr with symbolic name")
    if isinstance(o, VObj):
        if nm in o.fields or it.find_method(o.cls, nm) is not None:
            return it.getattr(o, nm)
        if len(args) > 2:
            return args[2]
        it.raise_("AttributeError", VStr(nm))
    raise OutOfSubset("getattr")


def b_hasattr(it, args, kw, fr):
    o = it.force(args[0])
    nm = it.concrete(args[1])
    if isinstance(o, VObj) and nm is not _NOCONST:
        return VBool(nm in o.fields or it.find_method(o.cls, nm) is not None)
    if isinstance(o, VTuple) and o.ntfields is not None and nm is not _NOCONST:
        return VBool(nm in o.ntfields or hasattr(tuple, nm))
    raise OutOfSubset("hasattr")


def b_sorted(it, args, kw, fr):
    v = it.force(args[0])
    h = it.reg.ext_models.get("sorted")
    if h is not None:
        return h(it, args, kw, fr)
    if isinstance(v, VMap):
        v = VSet(v.present, v.kt)
    if isinstance(v, VSet) and v.elem.kind == "int" and not kw:
        # the members in ascending order (no duplicates in a set)
        r = z3.Const(it.ctx.namer("sorted"), z3.SeqSort(IntS))
        x = z3.Int("x!srt")
        i, j = z3.Int("i!srt"), z3.Int("j!srt")
        it.ctx.assume(z3.ForAll([x], z3.Contains(r, z3.Unit(x)) == z3.Select(v.z, x)))
        it.ctx.assume(z3.ForAll([i, j], z3.Implies(z3.And(0 <= i, i < j, j < z3.Length(r)), r[i] < r[j])))
        return VSeq(r, "int")
    if isinstance(v, (VList, VTuple)) and len(v.items) <= 1 and not kw:
        return VList(list(v.items))
    raise OutOfSubset("sorted")


def b_ord(it, args, kw, fr):
    v = it.force(args[0])
    return VInt(z3.StrToCode(v.z))


def b_chr(it, args, kw, fr):
    v = it.force(args[0])
    return VStr(z3.StrFromCode(v.z), "str")


def b_abs(it, args, kw, fr):
    v = it.force(args[0])
    if isinstance(v, VInt):
        return VInt(z3.If(v.z < 0, -v.z, v.z))
    return VReal(z3.If(v.z < 0, -v.z, v.z))


def b_float(it, args, kw, fr):
    if not args:
        return VReal(0)
    v = it.force(args[0])
    if isinstance(v, VJson):
        v = it.json_narrow(v)
    if isinstance(v, VReal):
        return v
    if isinstance(v, VBool):
        return VReal(z3.ToReal(it._num(v)))
    if isinstance(v, VInt):
        # an int that rounds to something beyond the largest double (round-half-even: from 2**1024 - 2**970 on) raises
        # OverflowError; below that the value is kept exactly (floats as reals: rounding is not modelled)
        lim = z3.IntVal(2 ** 1024 - 2 ** 970)
        if it.ctx.branch(z3.Or(v.z >= lim, v.z <= -lim), "float-overflow"):
            it.raise_("OverflowError", VStr("int too large to convert to float"))
        return VReal(z3.ToReal(v.z))
    if v is NONE or isinstance(v, (VSeq, VList, VJsonDict, VDict)):
        it.raise_("TypeError", VStr("float() argument must be a string or a real number"))
    if isinstance(v, VStr):
        r = z3.Real(it.ctx.namer("float_of_str"))
        if it.ctx.branch(z3.Bool(it.ctx.namer("float_parse_ok"))):
            return VReal(r)
        it.raise_("ValueError", VStr("could not convert string to float"))
    raise OutOfSubset("float()")


def b_any_all(which):
    def f(it, args, kw, fr):
        v = it.force(args[0])
        if isinstance(v, (VList, VTuple)):
            ts = [it.truth(x) for x in v.items]
            if which == "any":
                return VBool(z3.Or(ts + [z3.BoolVal(False)]))
            return VBool(z3.And(ts + [z3.BoolVal(True)]))
        if isinstance(v, VSeq) and getattr(v.elem, "kind", None) == "bool":
            i = z3.Int(it.ctx.namer("i!" + which))
            rng = z3.And(0 <= i, i < z3.Length(v.z))
            if which == "any":
                return VBool(z3.Exists([i], z3.And(rng, v.z[i])))
            return VBool(z3.ForAll([i], z3.Implies(rng, v.z[i])))
        raise OutOfSubset(which)
    return f


def b_filter(it, args, kw, fr):
    fn, seq = args
    seq = it.force(seq)
    if isinstance(seq, (VList, VTuple)):
        out = []
        for x in seq.items:
            keep = it.truth(it.call(fn, [x], {}, fr)) if fn is not NONE else it.truth(x)
            if it.ctx.branch(keep):
                out.append(x)
        return VList(out)
    if isinstance(seq, VSeq):
        # pure predicate over a symbolic sequence: the kept elements, in order
        x = z3.Const("x!flt", sort_of(seq.elem))
        i = z3.Int("i!flt")
        j = z3.Int("j!flt")
        xv = from_z3(x, seq.elem)
        it.spec_mode += 1
        try:
            pred = it.truth(it.call(fn, [xv], {}, fr)) if fn is not NONE else it.truth(xv)
        finally:
            it.spec_mode -= 1
        r = z3.Const(it.ctx.namer("filtered"), seq.z.sort())
        it.ctx.assume(z3.Length(r) <= z3.Length(seq.z))
        src = z3.Function(it.ctx.namer("flt_src"), IntS, IntS)
        it.ctx.assume(z3.ForAll([j], z3.Implies(z3.And(0 <= j, j < z3.Length(r)),
                                                z3.And(z3.substitute(pred, (x, r[j])), 0 <= src(j), src(j) < z3.Length(seq.z),
                                                       r[j] == seq.z[src(j)]))))
        it.ctx.assume(z3.Implies(z3.ForAll([i], z3.Implies(z3.And(0 <= i, i < z3.Length(seq.z)),
                                                           z3.substitute(pred, (x, seq.z[i])))), r == seq.z))
        it.reg.note("filter(pred, seq) over a symbolic sequence: result elements satisfy pred and come from seq; "
                    "equals seq when every element satisfies pred (order-preserving subsequence not otherwise specified)")
        return VSeq(r, seq.elem)
    raise OutOfSubset("filter over symbolic sequence")


def b_enumerate(it, args, kw, fr):
    v = it.force(args[0])
    if isinstance(v, (VList, VTuple)):
        return VList([VTuple([VInt(i), x]) for i, x in enumerate(v.items)])
    raise OutOfSubset("enumerate")


def b_zip(it, args, kw, fr):
    vs = [it.force(a) for a in args]
    if all(isinstance(v, (VList, VTuple)) for v in vs):
        return VList([VTuple(list(t)) for t in zip(*[v.items for v in vs])])
    raise OutOfSubset("zip")


def b_callable(it, args, kw, fr):
    v = it.force(args[0])
    return VBool(isinstance(v, (VFunc, VClass, VBoundExt, VExt)) or (isinstance(v, VOpaque) and v.name == "callable"))


def b_id(it, args, kw, fr):
    return VInt(z3.Int(it.ctx.namer("id")))


def b_object(it, args, kw, fr):
    return VObj("object")


def b_sum(it, args, kw, fr):
    v = it.force(args[0])
    if isinstance(v, (VList, VTuple)):
        tot = VInt(0)
        for x in v.items:
            tot = it.binop(ast.Add(), tot, x)
        return tot
    raise OutOfSubset("sum")


def b_hex(it, args, kw, fr):
    return VStr(z3.String(it.ctx.namer("hex")), "str")


def b_frozenset(it, args, kw, fr):
    if not args:
        r = VTuple([])
        r.hashed = True
        return r
    v = it.force(args[0])
    if isinstance(v, (VList, VTuple)):
        r = VTuple(list(v.items))
        r.hashed = True      # membership tests hash the probe (unhashable probe => TypeError)
        return r
    if isinstance(v, VSet):
        return VSet(v.z, v.elem)
    raise OutOfSubset("frozenset(x)")


BUILTIN_IMPL = {
    "len": b_len, "isinstance": b_isinstance, "int": b_int, "str": b_str, "repr": b_repr, "bool": b_bool,
    "bytes": b_bytes, "list": b_list, "tuple": b_tuple, "dict": b_dict, "set": b_set, "range": b_range,
    "min": b_minmax("min"), "max": b_minmax("max"), "print": b_print, "type": b_type, "getattr": b_getattr,
    "hasattr": b_hasattr, "sorted": b_sorted, "ord": b_ord, "chr": b_chr, "abs": b_abs, "float": b_float,
    "any": b_any_all("any"), "all": b_any_all("all"), "filter": b_filter, "enumerate": b_enumerate, "zip": b_zip,
    "callable": b_callable, "id": b_id, "object": b_object, "sum": b_sum, "hex": b_hex, "frozenset": b_frozenset,
}


# ---------------------------------------------------------------- methods of builtin values
def _known_ascii(t):
    """syntactic: the term is built from ASCII literals and decimal numerals (int.__str__ / '%d') only"""
    if z3.is_string_value(t):
        try:
            return all(ord(ch) < 128 for ch in t.as_string())
        except Exception:
            return False
    if not z3.is_app(t):
        return False
    k = t.decl().kind()
    if k == z3.Z3_OP_INT_TO_STR:
        return True
    if k == z3.Z3_OP_SEQ_CONCAT:
        return all(_known_ascii(c) for c in t.children())
    if k == z3.Z3_OP_ITE:
        return _known_ascii(t.arg(1)) and _known_ascii(t.arg(2))
    return False


def call_method(it, recv, meth, args, kwargs, fr, node):
    recv = it.force(recv)
    if isinstance(recv, VJson):
        # attribute access on JSON: only dict/list/str have the methods used
        z = recv.z
        if meth in ("get", "items", "keys", "values", "pop", "setdefault", "update"):
            if it.ctx.branch(z3.Not(J.is_jdict(z)), "json-not-dict"):
                it.raise_("AttributeError", VStr(f"object has no attribute '{meth}'"))
            recv = VJsonDict(z)
        else:
            recv = it.json_narrow(recv)
    if isinstance(recv, VJsonDict):
        return m_jsondict(it, recv, meth, args, kwargs)
    if isinstance(recv, VStr):
        return m_str(it, recv, meth, args, kwargs)
    if isinstance(recv, VList):
        return m_list(it, recv, meth, args, kwargs, fr)
    if isinstance(recv, VSeq):
        r = m_seq(it, recv, meth, args, kwargs, fr)
        org = getattr(recv, "origin", None)
        if org is not None:
            # the sequence was looked up in a defaultdict map: the map sees the mutation
            org[0].val = z3.Store(org[0].val, org[1], recv.z)
        return r
    if isinstance(recv, VSet):
        r = m_set(it, recv, meth, args, kwargs)
        org = getattr(recv, "origin", None)
        if org is not None and recv.z is not None:
            # the set was looked up in a map (d[k].add(x)): the map sees the mutation
            org[0].val = z3.Store(org[0].val, org[1], recv.z)
        return r
    if isinstance(recv, VDict):
        return m_dict(it, recv, meth, args, kwargs)
    if isinstance(recv, VMap):
        return m_map(it, recv, meth, args, kwargs)
    if isinstance(recv, (VObj, VOpaque)):
        return boundary_call(it, recv, meth, args, kwargs, fr, node)
    if isinstance(recv, VTuple):
        if meth == "index" or meth == "count":
            raise OutOfSubset("tuple." + meth)
        if meth == "_replace" and recv.ntfields:
            items = list(recv.items)
            for k, v in kwargs.items():
                items[recv.ntfields.index(k)] = v
            return VTuple(items, recv.ntname, recv.ntfields)
        # a record that stands for a library object (e.g. zipfile.ZipInfo): its methods are models of the property module
        h = it.reg.boundary.get(f"{recv.ntname}.{meth}") if recv.ntname else None
        if h is not None:
            return h(it, recv, meth, args, kwargs, fr)
    if recv is NONE or isinstance(recv, (VInt, VBool, VReal)):
        it.raise_("AttributeError", VStr(f"object has no attribute '{meth}'"))
    raise OutOfSubset(f"method {meth} on {recv!r}")


def boundary_call(it, recv, meth, args, kwargs, fr, node):
    """call on an object that is not repository code under analysis (collaborator,
    transport, Deferred, ...): behaviour comes from the boundary table"""
    cls = recv.cls if isinstance(recv, VObj) else recv.name
    for key in (f"{cls}.{meth}", f"*.{meth}", f"{cls}.*", "*.*"):
        h = it.reg.boundary.get(key)
        if h is not None:
            return h(it, recv, meth, args, kwargs, fr)
    raise OutOfSubset(f"unmodelled boundary call {cls}.{meth}")


def m_jsondict(it, recv, meth, args, kwargs):
    d = J.d(recv.z)
    if meth == "get":
        k = it.force(args[0])
        if isinstance(k, VJson):
            k = it.json_narrow(k)
        default = args[1] if len(args) > 1 else kwargs.get("default", NONE)
        if isinstance(k, (VSeq, VList, VJsonDict, VDict)):
            it.raise_("TypeError", VStr("unhashable type"))
        if not (isinstance(k, VStr) and k.kind == "str"):
            return default
        ent = z3.Select(d, k.z)
        return VJson(z3.If(OJ.is_present(ent), OJ.v(ent), to_json(default)))
    if not hasattr(dict, meth):
        it.raise_("AttributeError", VStr(f"'dict' object has no attribute '{meth}'"))
    raise OutOfSubset(f"json dict method {meth}")


def norm_enc(e):
    return str(e).lower().replace("-", "").replace("_", "")


def decode_model(it, b, enc):
    enc = norm_enc(enc)
    if enc == "ascii":
        # mirror of str.encode('ascii'): identity on code points 0..127, anything else fails
        if it.ctx.branch(z3.Not(z3.InRe(b.z, z3.Star(z3.Range(chr(0), chr(127))))), "decode-fails"):
            it.raise_("UnicodeDecodeError")
        return VStr(b.z, "str")
    ok = uf(f"decodable_{enc}", StringS, BoolS)(b.z)
    if it.ctx.branch(z3.Not(ok), "decode-fails"):
        it.raise_("UnicodeDecodeError")
    r = uf(f"decode_{enc}", StringS, StringS)(b.z)
    it.ctx.assume(uf(f"encode_{enc}", StringS, StringS)(r) == b.z)
    return VStr(r, "str")


def m_str(it, s, meth, args, kwargs):
    kind = s.kind
    a = [it.force(x) for x in args]
    a = [it.json_narrow(x) if isinstance(x, VJson) else x for x in a]

    def need_same(x):
        if not (isinstance(x, VStr) and x.kind == kind):
            it.raise_("TypeError", VStr(f"{meth} arg must be {kind}"))
        return x

    if meth == "startswith":
        if isinstance(a[0], VTuple):
            return VBool(z3.Or([z3.PrefixOf(need_same(x).z, s.z) for x in a[0].items]))
        return VBool(z3.PrefixOf(need_same(a[0]).z, s.z))
    if meth == "endswith":
        return VBool(z3.SuffixOf(need_same(a[0]).z, s.z))
    if meth == "split":
        if not a:
            raise OutOfSubset("split() on whitespace")
        r = VSplit(s.z, need_same(a[0]).z, kind)
        if len(a) > 1:
            r.maxsplit = it.concrete(a[1])
        return r
    if meth == "count":
        f = uf("str_count", StringS, StringS, IntS)
        n = f(s.z, need_same(a[0]).z)
        it.ctx.assume(n >= 0)
        it.ctx.assume((n == 0) == z3.Not(z3.Contains(s.z, a[0].z)))
        return VInt(n)
    if meth == "lower":
        return VStr(uf("str_lower", StringS, StringS)(s.z), kind)
    if meth == "upper":
        return VStr(uf("str_upper", StringS, StringS)(s.z), kind)
    if meth in ("strip", "rstrip", "lstrip"):
        return VStr(uf("str_" + meth, StringS, StringS)(s.z), kind)
    if meth == "encode":
        if kind != "str":
            it.raise_("AttributeError", VStr("bytes has no encode"))
        enc = norm_enc(it.concrete(a[0]) if a else "utf8")
        errors = it.concrete(a[1]) if len(a) > 1 else it.concrete(it.force(kwargs["errors"])) if "errors" in kwargs else "strict"
        if errors != "strict":
            # a lossy error handler ('ignore', 'replace', ...): some other function of the string, never raises
            return VStr(uf(f"encode_{enc}_{errors}", StringS, StringS)(s.z), "bytes")
        out = uf(f"encode_{enc}", StringS, StringS)(s.z)
        if enc != "ascii":
            # ground instance of the codec round trip (assumed contract of the codec)
            it.ctx.assume(uf(f"decodable_{enc}", StringS, BoolS)(out))
            it.ctx.assume(uf(f"decode_{enc}", StringS, StringS)(out) == s.z)
        if enc == "ascii":
            if _known_ascii(s.z):
                return VStr(s.z, "bytes")       # decimal numerals / ASCII literals: nothing to decide
            ok = z3.InRe(s.z, z3.Star(z3.Range(chr(0), chr(127))))
            if it.ctx.branch(z3.Not(ok)):
                it.raise_("UnicodeEncodeError")
            return VStr(s.z, "bytes")
        it.reg.note(f"str.encode({enc!r}) is an uninterpreted injective function")
        return VStr(out, "bytes")
    if meth == "decode":
        if kind != "bytes":
            it.raise_("AttributeError", VStr("str has no decode"))
        enc = norm_enc(it.concrete(a[0]) if a else "utf8")
        return decode_model(it, s, enc)
    if meth == "join":
        seq = a[0]
        if isinstance(seq, (VList, VTuple)):
            parts = []
            for i, x in enumerate(seq.items):
                x = it.force(x)
                if not (isinstance(x, VStr) and x.kind == kind):
                    it.raise_("TypeError", VStr("join: expected str"))
                if i:
                    parts.append(s.z)
                parts.append(x.z)
            if not parts:
                return VStr(z3.StringVal(""), kind)
            return VStr(parts[0] if len(parts) == 1 else z3.Concat(*parts), kind)
        if isinstance(seq, VSeq) and seq.elem.kind in ("str", "bytes"):
            f = uf("str_join", StringS, z3.SeqSort(StringS), StringS)
            return VStr(f(s.z, seq.z), kind)
        raise OutOfSubset("join")
    if meth == "format":
        r = str_format_model(it, s, a, kwargs, kind)
        if r is not None:
            return r
        it.ctx.note_imprecise("str.format with an unmodelled field or argument")
        return VStr(z3.String(it.ctx.namer("format")), kind)
    if meth == "find":
        return VInt(z3.IndexOf(s.z, need_same(a[0]).z, 0))
    if meth == "replace":
        raise OutOfSubset("str.replace (first-occurrence only in SMT)")
    if meth == "hex":
        return hexlify_model(it, s)
    if meth == "isdigit":
        return VBool(z3.InRe(s.z, z3.Plus(rx.digit_re(True))))
    if not hasattr(str if kind == "str" else bytes, meth):
        it.raise_("AttributeError", VStr(f"'{kind}' object has no attribute '{meth}'"))
    raise OutOfSubset(f"str method {meth}")


def hexlify_model(it, b):
    f = uf("hexlify", StringS, StringS)
    r = VStr(f(b.z), "bytes")
    it.ctx.assume(z3.Length(r.z) == 2 * z3.Length(b.z))
    r.hex_of = (b.z, None)
    return r


def m_list(it, l, meth, args, kwargs, fr):
    a = list(args)
    if meth == "append":
        l.items.append(a[0])
        return NONE
    if meth == "extend":
        v = it.force(a[0])
        if isinstance(v, (VList, VTuple)):
            l.items.extend(v.items)
            return NONE
        raise OutOfSubset("extend concrete list with symbolic seq")
    if meth == "pop":
        if not l.items:
            it.raise_("IndexError")
        i = it.concrete(it.force(a[0])) if a else -1
        if i is _NOCONST:
            raise OutOfSubset("pop(symbolic)")
        return l.items.pop(i)
    if meth == "popleft":
        if not l.items:
            it.raise_("IndexError")
        return l.items.pop(0)
    if meth == "insert":
        i = it.concrete(it.force(a[0]))
        l.items.insert(i, a[1])
        return NONE
    if meth == "remove":
        for i, x in enumerate(l.items):
            if it.ctx.branch(it.eq(x, a[0])):
                del l.items[i]
                return NONE
        it.raise_("ValueError")
    if meth == "clear":
        l.items.clear()
        return NONE
    if meth == "copy":
        return VList(list(l.items))
    if meth == "index":
        for i, x in enumerate(l.items):
            if it.ctx.branch(it.eq(x, a[0])):
                return VInt(i)
        it.raise_("ValueError")
    if meth == "sort":
        if len(l.items) <= 1:
            return NONE
        raise OutOfSubset("list.sort")
    if meth == "rotate":
        n = it.concrete(it.force(a[0]))
        if n == -1 and l.items:
            l.items.append(l.items.pop(0))
            return NONE
        if not l.items:
            return NONE
        raise OutOfSubset("rotate")
    if meth == "count":
        tot = VInt(0)
        for x in l.items:
            tot = VInt(tot.z + z3.If(it.eq(x, a[0]), 1, 0))
        return tot
    raise OutOfSubset(f"list method {meth}")


def seq_append(it, sz, xz):
    """s ++ [x], together with the element-wise facts the sequence solvers do not derive
    on their own under quantifiers (pure consequences of the definition, no assumption)"""
    r = z3.Concat(sz, z3.Unit(xz))
    j = z3.Int("j!app")
    L = z3.Length(sz)
    it.ctx.assume(r[L] == xz)
    it.ctx.assume(z3.ForAll([j], z3.Implies(z3.And(0 <= j, j < L), r[j] == sz[j])))
    return r


def m_seq(it, s, meth, args, kwargs, fr):
    old_z = s.z
    hook = getattr(it.reg, "seq_op_hook", None)
    if hook is not None:
        hook(it, s, "pre:" + meth, old_z, args)
    r = _m_seq(it, s, meth, args, kwargs, fr)
    if hook is not None and s.z is not old_z:
        # a property module may spell out element-wise consequences of the list operation
        hook(it, s, meth, old_z, args)
    return r


def _m_seq(it, s, meth, args, kwargs, fr):
    a = [it.force(x) for x in args]
    et = s.elem
    if meth == "append":
        s.z = seq_append(it, s.z, to_z3(a[0], et))
        return NONE
    if meth == "appendleft":
        s.z = z3.Concat(z3.Unit(to_z3(a[0], et)), s.z)
        return NONE
    if meth == "extend":
        s.z = z3.Concat(s.z, to_z3(a[0], T("seq", [et])))
        return NONE
    if meth == "popleft" or (meth == "pop" and a and it.concrete(a[0]) == 0):
        if it.ctx.branch(z3.Length(s.z) == 0):
            it.raise_("IndexError")
        x = from_z3(s.z[0], et)
        s.z = z3.Extract(s.z, 1, z3.Length(s.z) - 1)
        return x
    if meth == "pop" and not a:
        if it.ctx.branch(z3.Length(s.z) == 0):
            it.raise_("IndexError")
        x = from_z3(s.z[z3.Length(s.z) - 1], et)
        s.z = z3.Extract(s.z, 0, z3.Length(s.z) - 1)
        return x
    if meth == "clear":
        s.z = z3.Empty(s.z.sort())
        return NONE
    if meth == "copy":
        return VSeq(s.z, et)
    if meth == "rotate":
        n = it.concrete(a[0])
        if n == -1:
            L = z3.Length(s.z)
            s.z = z3.If(L == 0, s.z, z3.Concat(z3.Extract(s.z, 1, L - 1), z3.Extract(s.z, 0, 1)))
            return NONE
        raise OutOfSubset("rotate")
    if meth == "remove":
        x = z3.Unit(to_z3(a[0], et))
        idx = z3.IndexOf(s.z, x, 0)
        if it.ctx.branch(idx < 0):
            it.raise_("ValueError")
        L = z3.Length(s.z)
        s.z = z3.Concat(z3.Extract(s.z, 0, idx), z3.Extract(s.z, idx + 1, L - idx - 1))
        return NONE
    if meth == "index":
        x = z3.Unit(to_z3(a[0], et))
        idx = z3.IndexOf(s.z, x, 0)
        if it.ctx.branch(idx < 0):
            it.raise_("ValueError")
        return VInt(idx)
    if not hasattr(list, meth) and not hasattr(__import__("collections").deque, meth):
        it.raise_("AttributeError", VStr(f"'list' object has no attribute '{meth}'"))
    raise OutOfSubset(f"seq method {meth}")


def type_of_value(v):
    if isinstance(v, VStr):
        return T(v.kind)
    if isinstance(v, VBool):
        return T("bool")
    if isinstance(v, VInt):
        return T("int")
    if isinstance(v, VReal):
        return T("real")
    if isinstance(v, VOpaque):
        return T("opaque", name=v.name)
    if isinstance(v, VJson):
        return T("json")
    if isinstance(v, VTuple):
        return T("tuple", [type_of_value(x) for x in v.items])
    if isinstance(v, VSeq):
        return T("seq", [v.elem])
    raise OutOfSubset(f"cannot infer a container element type from {v!r}")


def m_set(it, s, meth, args, kwargs):
    a = [it.force(x) for x in args]
    if s.z is None:
        if meth in ("add",):
            s.elem = type_of_value(a[0])
            s.z = z3.K(sort_of(s.elem), z3.BoolVal(False))
        elif meth in ("discard", "clear"):
            return NONE
        elif meth == "copy":
            return VSet(None, None)
        else:
            raise OutOfSubset(f"{meth} on an untyped empty set")
    et = s.elem
    if meth == "add":
        s.z = z3.Store(s.z, to_z3(a[0], et), True)
        return NONE
    if meth == "discard":
        s.z = z3.Store(s.z, to_z3(a[0], et), False)
        return NONE
    if meth == "remove":
        k = to_z3(a[0], et)
        if it.ctx.branch(z3.Not(z3.Select(s.z, k))):
            it.raise_("KeyError", a[0])
        s.z = z3.Store(s.z, k, False)
        return NONE
    if meth == "clear":
        s.z = z3.K(s.z.sort().domain(), z3.BoolVal(False))
        return NONE
    if meth == "copy":
        return VSet(s.z, et)
    if meth == "update":
        o = a[0]
        if isinstance(o, VSet):
            s.z = z3.SetUnion(s.z, o.z)
            return NONE
    if meth == "union":
        return VSet(z3.SetUnion(s.z, a[0].z), et)
    if meth == "difference":
        return VSet(z3.SetDifference(s.z, a[0].z), et)
    if meth == "pop":
        k = z3.Const(it.ctx.namer("popped"), s.z.sort().domain())
        if it.ctx.branch(s.z == z3.K(s.z.sort().domain(), z3.BoolVal(False))):
            it.raise_("KeyError")
        it.ctx.assume(z3.Select(s.z, k))
        s.z = z3.Store(s.z, k, False)
        return from_z3(k, et)
    if meth == "issubset":
        return VBool(z3.IsSubset(s.z, a[0].z))
    if meth == "intersection":
        return VSet(z3.SetIntersect(s.z, a[0].z), et)
    h = it.reg.boundary.get("set." + meth)
    if h is not None:
        # methods of a set subclass (e.g. EmptyableSet.when_next_empty), modelled by the property module
        return h(it, s, meth, args, kwargs, None)
    if meth == "isdisjoint" and isinstance(a[0], VSet) and a[0].z is not None:
        return VBool(z3.SetIntersect(s.z, a[0].z) == z3.K(s.z.sort().domain(), z3.BoolVal(False)))
    raise OutOfSubset(f"set method {meth}")


def m_dict(it, d, meth, args, kwargs):
    a = [it.force(x) for x in args]
    if meth == "get":
        ck = it.concrete(a[0])
        default = a[1] if len(a) > 1 else NONE
        if ck is _NOCONST:
            for key, val in d.d.items():
                if it.ctx.branch(it.eq(a[0], it.const(key))):
                    return val
            return default
        return d.d.get(ck, default)
    if meth == "items":
        return VList([VTuple([it.const(k), v]) for k, v in d.d.items()])
    if meth == "keys":
        return VList([it.const(k) for k in d.d])
    if meth == "values":
        return VList(list(d.d.values()))
    if meth == "copy":
        return VDict(dict(d.d))
    if meth == "update":
        o = a[0] if a else VDict({})
        if isinstance(o, VDict):
            d.d.update(o.d)
            d.d.update(kwargs)
            return NONE
    if meth == "pop":
        ck = it.concrete(a[0])
        if ck is not _NOCONST:
            if ck in d.d:
                return d.d.pop(ck)
            if len(a) > 1:
                return a[1]
            it.raise_("KeyError", a[0])
    if meth == "setdefault":
        ck = it.concrete(a[0])
        if ck is not _NOCONST:
            return d.d.setdefault(ck, a[1] if len(a) > 1 else NONE)
    raise OutOfSubset(f"dict method {meth}")


def m_map(it, m, meth, args, kwargs):
    a = [it.force(x) for x in args]
    if meth == "get":
        kz = to_z3(a[0], m.kt)
        default = a[1] if len(a) > 1 else NONE
        present = z3.Select(m.present, kz)
        val = from_z3(z3.Select(m.val, kz), m.vt)
        if default is NONE:
            return VOpt(z3.Not(present), val)
        return it.ite(present, val, default)
    if meth == "pop":
        kz = to_z3(a[0], m.kt)
        present = z3.Select(m.present, kz)
        if it.ctx.branch(z3.Not(present)):
            if len(a) > 1:
                return a[1]
            it.raise_("KeyError", a[0])
        val = from_z3(z3.Select(m.val, kz), m.vt)
        m.present = z3.Store(m.present, kz, False)
        return val
    if meth == "clear":
        m.present = z3.K(m.present.sort().domain(), z3.BoolVal(False))
        return NONE
    if meth == "copy":
        return VMap(m.present, m.val, m.kt, m.vt)
    if meth == "keys":
        return VSet(m.present, m.kt)
    if meth == "items":
        r = VSet(m.present, m.kt)
        r.items_of = m
        return r
    raise OutOfSubset(f"map method {meth}")


# ---------------------------------------------------------------- library models
def install_default_models(reg):
    em = reg.ext_models

    def re_search(mode):
        def f(it, args, kw):
            pat = it.concrete(it.force(args[0]))
            s = it.force(args[1])
            if isinstance(s, VJson):
                s = it.json_narrow(s)
            if pat is _NOCONST:
                raise OutOfSubset("non-literal regex")
            if not isinstance(s, VStr):
                it.raise_("TypeError", VStr("expected string or bytes-like object"))
            if (s.kind == "bytes") != isinstance(pat, bytes):
                it.raise_("TypeError", VStr("cannot use a string pattern on a bytes-like object"))
            if isinstance(pat, bytes):
                pat = pat.decode("latin-1")
            mo = VObj("re.Match", {"string": s, "pattern": VStr(pat)})
            if getattr(it.reg, "regex_abstract", False):
                # composed-machine level: whether a string matches is an uninterpreted function of
                # (pattern, string) - an over-approximation that keeps string theory out of the paths
                m = uf("re_matches", StringS, StringS, BoolS)(z3.StringVal(pat), s.z)
                # the one fact kept: a match is at least as long as the pattern's mandatory atoms
                it.ctx.assume(z3.Implies(m, z3.Length(s.z) >= rx.min_length(pat)))
                return VOpt(z3.Not(m), mo)
            try:
                r = rx.compile_search(pat, mode, unicode_digits=(s.kind == "str"))
            except rx.RegexUnsupported as e:
                raise OutOfSubset(f"regex {pat!r}: {e}")
            return VOpt(z3.Not(z3.InRe(s.z, r)), mo)
        return f

    def match_group(it, recv, meth, args, kwargs, fr):
        """m.group(k): modelled as some substring of the subject (k >= 1) or the whole match (k == 0)"""
        g = z3.String(it.ctx.namer("group"))
        it.ctx.assume(z3.Contains(recv.fields["string"].z, g))
        return VStr(g, recv.fields["string"].kind)

    reg.boundary["re.Match.group"] = match_group
    em["re.search"] = re_search("search")
    em["re.match"] = re_search("match")
    em["re.fullmatch"] = re_search("fullmatch")

    # re.compile(pattern): an object that remembers the literal pattern; its search/match/fullmatch are the module functions
    def re_compile(it, args, kw):
        pat = it.force(args[0])
        if it.concrete(pat) is _NOCONST or len(args) > 1 or kw:
            raise OutOfSubset("re.compile of a non-literal pattern / with flags")
        return VObj("re.Pattern", {"pattern": pat})

    em["re.compile"] = re_compile
    for _mode in ("search", "match", "fullmatch"):
        reg.boundary["re.Pattern." + _mode] = (lambda f_: (lambda it, recv, meth, args, kwargs, fr:
                                                           f_(it, [recv.fields["pattern"]] + list(args), kwargs)))(re_search(_mode))

    def struct_pack(it, args, kw):
        fmt = it.concrete(it.force(args[0]))
        v = it.force(args[1])
        if fmt in (">L", ">I", "!L", "!I") and isinstance(v, (VInt, VBool)):
            z = it._num(v)
            if it.ctx.branch(z3.Or(z < 0, z >= 2 ** 32)):
                it.raise_("struct.error")
            return VStr(be4_of(it, z), "bytes")
        if fmt in (">L", ">I") and not isinstance(v, (VInt, VBool)):
            it.raise_("struct.error")
        raise OutOfSubset(f"struct.pack {fmt}")

    def struct_unpack(it, args, kw):
        fmt = it.concrete(it.force(args[0]))
        b = it.force(args[1])
        if fmt in (">L", ">I", "!L", "!I") and isinstance(b, VStr) and b.kind == "bytes":
            if it.ctx.branch(z3.Length(b.z) != 4):
                it.raise_("struct.error")
            return VTuple([VInt(unbe4_of(it, b.z))])
        raise OutOfSubset(f"struct.unpack {fmt}")

    # ---- general fixed-size integer formats with an explicit byte order ('>2l', '<H', '!BB', ...): by definition
    _SZ = {"B": (1, False), "b": (1, True), "H": (2, False), "h": (2, True), "L": (4, False), "l": (4, True),
           "I": (4, False), "i": (4, True), "Q": (8, False), "q": (8, True)}

    def _parse_fmt(fmt):
        import re as _re
        if not isinstance(fmt, str) or not fmt or fmt[0] not in "<>!":
            return None
        items = []
        for cnt, code in _re.findall(r"(\d*)([A-Za-z])", fmt[1:].replace(" ", "")):
            if code not in _SZ:
                return None
            items += [_SZ[code]] * (int(cnt) if cnt else 1)
        if "".join(f"{c}{k}" for c, k in _re.findall(r"(\d*)([A-Za-z])", fmt[1:].replace(" ", ""))) != fmt[1:].replace(" ", ""):
            return None
        return ("big" if fmt[0] in ">!" else "little"), items

    def _int_of(it, bz, off, size, signed, order):
        tot = z3.IntVal(0)
        rng = range(size) if order == "big" else range(size - 1, -1, -1)
        for i in rng:
            c = z3.StrToCode(z3.SubString(bz, off + i, 1))
            it.ctx.assume(z3.And(c >= 0, c <= 255))
            tot = tot * 256 + c
        if signed:
            tot = z3.If(tot >= 2 ** (8 * size - 1), tot - 2 ** (8 * size), tot)
        return tot

    def _unpack_general(it, fmt, b, off):
        pf = _parse_fmt(fmt)
        if pf is None or not (isinstance(b, VStr) and b.kind == "bytes"):
            raise OutOfSubset(f"struct.unpack {fmt}")
        order, items = pf
        total = sum(sz for sz, _ in items)
        offz = it._num(off) if off is not None else None
        if offz is None:
            if it.ctx.branch(z3.Length(b.z) != total):
                it.raise_("struct.error")
            offz = z3.IntVal(0)
        else:
            if it.ctx.branch(z3.Or(offz < 0, z3.Length(b.z) - offz < total)):
                it.raise_("struct.error")       # (a negative offset counts from the end in CPython: not modelled, treated as an error)
        out, pos = [], 0
        for sz, signed in items:
            out.append(VInt(_int_of(it, b.z, offz + pos, sz, signed, order)))
            pos += sz
        return VTuple(out)

    def struct_unpack2(it, args, kw):
        fmt = it.concrete(it.force(args[0]))
        if fmt in (">L", ">I", "!L", "!I"):
            return struct_unpack(it, args, kw)
        return _unpack_general(it, fmt, it.force(args[1]), None)

    def struct_unpack_from(it, args, kw):
        fmt = it.concrete(it.force(args[0]))
        off = it.force(args[2]) if len(args) > 2 else (it.force(kw["offset"]) if "offset" in kw else VInt(0))
        return _unpack_general(it, fmt, it.force(args[1]), off)

    def struct_pack2(it, args, kw):
        fmt = it.concrete(it.force(args[0]))
        if fmt in (">L", ">I", "!L", "!I") and len(args) == 2:
            return struct_pack(it, args, kw)
        pf = _parse_fmt(fmt)
        if pf is None:
            raise OutOfSubset(f"struct.pack {fmt}")
        order, items = pf
        if len(args) - 1 != len(items):
            it.raise_("struct.error")
        total = sum(sz for sz, _ in items)
        r = z3.String(it.ctx.namer("packed"))
        it.ctx.assume(z3.Length(r) == total)
        pos = 0
        for (sz, signed), a in zip(items, args[1:]):
            v = it.force(a)
            if not isinstance(v, (VInt, VBool)):
                it.raise_("struct.error")
            z = it._num(v)
            lo, hi = (-(2 ** (8 * sz - 1)), 2 ** (8 * sz - 1)) if signed else (0, 2 ** (8 * sz))
            if it.ctx.branch(z3.Or(z < lo, z >= hi)):
                it.raise_("struct.error")
            it.ctx.assume(_int_of(it, r, z3.IntVal(pos), sz, signed, order) == z)
            pos += sz
        return VStr(r, "bytes")

    def struct_calcsize(it, args, kw):
        pf = _parse_fmt(it.concrete(it.force(args[0])))
        if pf is None:
            raise OutOfSubset("struct.calcsize")
        return VInt(sum(sz for sz, _ in pf[1]))

    em["struct.pack"] = struct_pack2
    em["struct.unpack"] = struct_unpack2
    em["struct.unpack_from"] = struct_unpack_from
    em["struct.calcsize"] = struct_calcsize

    def hexlify(it, args, kw):
        b = it.force(args[0])
        if not (isinstance(b, VStr) and b.kind == "bytes"):
            it.raise_("TypeError", VStr("a bytes-like object is required"))
        return hexlify_model(it, b)

    def unhexlify(it, args, kw):
        h = it.force(args[0])
        if not isinstance(h, VStr):
            it.raise_("TypeError")
        hf = getattr(h, "hex_fmt", None)
        if hf is not None:
            # unhexlify(f"{x:0Nx}"): the N/2-byte big-endian encoding, provided x fits in N hex digits
            xz, n = hf
            if n % 2 == 0:
                if it.ctx.branch(z3.Or(xz < 0, xz >= 16 ** n), "hexfmt-overflow"):
                    raise OutOfSubset("hex formatting of a value that does not fit the field width")
                return VStr(be_enc_of(it, xz, n // 2), "bytes")
        ok = uf("is_hex", StringS, BoolS)(h.z)
        if it.ctx.branch(z3.Not(ok), "unhexlify-fails"):
            it.raise_("binascii.Error")
        r = VStr(uf("unhexlify", StringS, StringS)(h.z), "bytes")
        it.ctx.assume(2 * z3.Length(r.z) == z3.Length(h.z))
        return r

    em["binascii.hexlify"] = hexlify
    em["binascii.unhexlify"] = unhexlify

    def namedtuple(it, args, kw):
        nm = it.concrete(it.force(args[0]))
        flds = it.force(args[1])
        names = [it.concrete(x) for x in flds.items]
        return VNamedTupleClass(nm, names)

    em["collections.namedtuple"] = namedtuple

    def deque(it, args, kw):
        if args:
            v = it.force(args[0])
            if isinstance(v, (VList, VTuple)):
                return VList(list(v.items))
            if isinstance(v, VSeq):
                return VSeq(v.z, v.elem)
        return VList([])

    em["collections.deque"] = deque

    def os_urandom(it, args, kw):
        n = it.force(args[0])
        z = z3.String(it.ctx.namer("urandom"))
        it.ctx.assume(z3.Length(z) == n.z)
        it.ctx.event("os.urandom", VStr(z, "bytes"))
        return VStr(z, "bytes")

    em["os.urandom"] = os_urandom

    def normalize(it, args, kw):
        form = it.concrete(it.force(args[0]))
        s = it.force(args[1])
        return VStr(uf("unicode_normalize_" + str(form), StringS, StringS)(s.z), "str")

    em["unicodedata.normalize"] = normalize


class VNamedTupleClass(V):
    def __init__(self, name, fields):
        self.name = name
        self.fields = fields

    def __repr__(self):
        return f"VNamedTupleClass({self.name})"


_orig_call = I.Interp.call


def _call2(self, f, args, kwargs, fr=None, node=None):
    f = self.force(f)
    if isinstance(f, VNamedTupleClass):
        items = list(args)
        for n in f.fields[len(items):]:
            if n not in kwargs:
                self.raise_("TypeError", VStr("missing namedtuple field"))
            items.append(kwargs[n])
        if len(items) != len(f.fields):
            self.raise_("TypeError", VStr("namedtuple arity"))
        return VTuple(items, f.name, f.fields)
    return _orig_call(self, f, args, kwargs, fr, node)


I.Interp.call = _call2

_orig_isinst = isinstance_z


def isinstance_z(it, v, cls):   # noqa: F811  (extend for namedtuple classes)
    if isinstance(cls, VNamedTupleClass):
        if isinstance(v, VOpt):
            return z3.And(z3.Not(v.isnone), isinstance_z(it, v.inner, cls))
        if isinstance(v, VUnion):
            return z3.Or([z3.And(c, isinstance_z(it, x, cls)) for c, x in v.alts])
        return z3.BoolVal(isinstance(v, VTuple) and v.ntname == cls.name)
    if isinstance(cls, VTuple):
        return z3.Or([isinstance_z(it, v, c) for c in cls.items] + [z3.BoolVal(False)])
    return _orig_isinst(it, v, cls)
