"""Contracts (sidecar, never edits the repository) and their two uses:
callee side  - verify(): the real body is executed symbolically against its contract;
caller side  - apply(): at a call site only the contract is known (modular)."""
import ast
import time
import z3

from .values import *      # noqa
from .ctx import Ctx, PathEnd, VC
from .interp import Interp, Frame, PyRaise, ReturnSig, snapshot, Registry, _NOCONST
from . import source


class Contract:
    def __init__(self, target, props=(), params=None, self_fields=None, requires=(), ensures=(),
                 raises=None, raises_exactly=None, ensures_raise=None, modifies=(), returns=None,
                 loops=None, inline=False, assert_mode="raise", self_class=None, covers=(),
                 pre_hook=None, post_hook=None, replay=None, note="", may_reenter=None, trace_ensures=(),
                 ghost=None, max_paths=4000, internal_ensures=(), source_text=None, source_module=None, effects=None):
        self.target = target
        self.props = list(props)
        self.params = dict(params or {})
        self.self_fields = dict(self_fields or {}) if self_fields is not None else None
        self.requires = list(requires)
        self.ensures = [(e if isinstance(e, tuple) else (f"e{i}", e)) for i, e in enumerate(ensures)]
        self.internal_ensures = [(e if isinstance(e, tuple) else (f"i{i}", e)) for i, e in enumerate(internal_ensures)]
        self.raises = dict(raises or {})
        self.raises_exactly = dict(raises_exactly or {})
        self.ensures_raise = dict(ensures_raise or {})
        self.modifies = list(modifies)
        self.returns = returns
        self.loops = dict(loops or {})
        self.inline = inline
        self.assert_mode = assert_mode
        self.self_class = self_class
        self.pre_hook = pre_hook
        self.post_hook = post_hook
        self.replay = replay
        self.note = note
        self.trace_ensures = list(trace_ensures)
        self.ghost = dict(ghost or {})
        self.max_paths = max_paths
        self.effects = effects      # None: unspecified; list of (method, [arg exprs]): exactly these boundary calls, in order
        self.source_text = source_text       # a lemma: a small harness over contracted functions
        self.source_module = source_module
        self._fdef = None

    @property
    def fdef(self):
        if self.source_text is not None:
            if self._fdef is None:
                import ast as _ast
                import textwrap
                mod = source.load_module(self.source_module)
                node = _ast.parse(textwrap.dedent(self.source_text)).body[0]
                fd = source.FuncDef(mod, node.name, node, None, self.source_text)
                fd.key_override = self.target
                self._fdef = fd
            return self._fdef
        return source.find_func(self.target)

    # -------------------------------------------------------------- caller side
    def apply(self, it, args, kwargs, fr):
        fd = self.fdef
        ctx = it.ctx
        caller = fr.fdef.key if fr is not None and fr.fdef is not None else "?"
        sf = Frame(fd, fd.module, None, None)
        it.bind_args(fd.node, args, kwargs, sf, Frame(None, fd.module))
        selfobj = None
        if fd.cls is not None and args:
            selfobj = it.force(args[0])
            sf.selfobj = selfobj if isinstance(selfobj, VObj) else None
        for i, r in enumerate(self.requires):
            ctx.prove(it.truth(it.eval_spec(r, sf)), f"{caller}.call[{self.target}].requires.{i}",
                      {"kind": "call-requires", "src": r if isinstance(r, str) else getattr(r, "__name__", "?")})
            ctx.assume(it.truth(it.eval_spec(r, sf)))
        old = it.snapshot_frame(sf)
        ctx.event("call", self.target, [sf.locals.get(p) for p in sf.locals])
        # outcome
        excs = list(self.raises) + [e for e in self.raises_exactly if e not in self.raises]
        idx = ctx.choose([z3.BoolVal(True)] * (1 + len(excs)), f"outcome[{self.target}]") if excs else 0
        # havoc the frame
        for m in self.modifies:
            parts = m.split(".")
            if parts[0] == "self":
                parts = parts[1:]
            if parts[0] in sf.locals and len(parts) > 1:
                o = it.force(sf.locals[parts[0]])
                parts = parts[1:]
            else:
                o = sf.selfobj
            if o is None:
                continue
            tmpfr = Frame(fd, fd.module, o, None)
            it.havoc_target(("self",) + tuple(parts), tmpfr)
        if idx > 0:
            ecls = excs[idx - 1]
            cond = self.raises_exactly.get(ecls, self.raises.get(ecls))
            if cond:
                ctx.assume(it.truth(it.eval_spec(cond, old)))
            exc = VObj(ecls, {"args": VTuple([])})
            for name, e in self.ensures_raise.get(ecls, []):
                ctx.assume(it.truth(it.eval_spec(e, sf, old=old)))
            raise PyRaise(exc)
        for ecls, cond in self.raises_exactly.items():
            ctx.assume(z3.Not(it.truth(it.eval_spec(cond, old))))
        result = NONE
        if self.returns:
            result = it.fresh(self.returns, "ret_" + fd.qualname.split(".")[-1])
        ctx.event("callret", self.target, result)
        for meth, argx in (self.effects or []):
            # the callee's boundary calls, as its contract states them (proved on the callee side)
            ctx.event("bcall", "?", meth, [it.eval_spec(a, sf, old=old, result=result) for a in argx], {})
        for name, e in self.ensures:
            ctx.assume(it.truth(it.eval_spec(e, sf, old=old, result=result)))
        return result


# ------------------------------------------------------------------ exploring one contract
class PathResult:
    def __init__(self):
        self.vcs = []
        self.outcome = None
        self.inputs = {}
        self.error = None
        self.trace = None
        self.covered = set()


def make_inputs(it, c, fd):
    """symbolic pre-state for the function under contract"""
    fr = Frame(fd, fd.module, None, None)
    argnames = [a.arg for a in fd.node.args.posonlyargs + fd.node.args.args]
    selfobj = None
    if fd.cls is not None and argnames and argnames[0] == "self" and "staticmethod" not in fd.decorators:
        it.reg.register_repo_class(fd.cls)
        selfobj = VObj(c.self_class or fd.cls.name)
        for f, t in (c.self_fields or {}).items():
            if f == "__state":
                if it.reg.automat is None:
                    raise OutOfSubset("contract mentions __state but the registry has no Automat support (reg.automat)")
                it.reg.automat.fresh_state(it, selfobj, fd.cls, "self")
                continue
            selfobj.fields[f] = it.fresh(t, "self." + f)
        fr.locals["self"] = selfobj
        fr.selfobj = selfobj
        argnames = argnames[1:]
    for p in argnames:
        t = c.params.get(p)
        if t is None:
            raise OutOfSubset(f"contract for {c.target} gives no type for parameter {p}")
        fr.locals[p] = it.fresh(t, p)
    kwonly = [a.arg for a in fd.node.args.kwonlyargs]
    for p in kwonly:
        if p in c.params:
            fr.locals[p] = it.fresh(c.params[p], p)
    for g, t in c.ghost.items():
        fr.locals[g] = it.fresh(t, g)
    return fr, selfobj


def run_contract_path(c, reg, ctx):
    """execute the real body once along the decisions in ctx; returns PathResult"""
    it = Interp(ctx, reg)
    fd = c.fdef
    if fd is None:
        raise LookupError(f"unbound contract: {c.target} not found in the repository")
    pr = PathResult()
    reg.current = fd.key
    reg.assert_mode = c.assert_mode
    ctx.qf_feasibility = getattr(c, "qf_feasibility", False)
    fr, selfobj = make_inputs(it, c, fd)
    ctx.inputs = dict(fr.locals)
    if c.pre_hook:
        c.pre_hook(it, fr)
    for r in c.requires:
        ctx.assume(it.truth(it.eval_spec(r, fr)))
    # vacuity guard: the precondition itself must be satisfiable
    ctx.cover("requires")
    old = it.snapshot_frame(fr)
    # counterexamples are read from the *entry* state (objects are mutated by the body)
    ctx.inputs = dict(old.locals)
    if old.selfobj is not None:
        ctx.inputs["self"] = old.selfobj
    key = fd.key
    body_fr = Frame(fd, fd.module, selfobj, None)
    body_fr.locals = dict(fr.locals)
    for g in c.ghost:
        body_fr.locals.pop(g, None)
    # fill defaults for parameters the contract does not mention (kw-only with defaults)
    a = fd.node.args
    for p, d in zip(a.kwonlyargs, a.kw_defaults):
        if p.arg not in body_fr.locals and d is not None:
            body_fr.locals[p.arg] = it.eval(d, Frame(None, fd.module))
    it.root_frame = body_fr
    post_fr = Frame(fd, fd.module, selfobj, body_fr)   # parameters as given; falls through to the body's final locals
    post_fr.locals = dict(fr.locals)
    is_input = False
    if reg.automat is not None and fd.cls is not None:
        mach = reg.automat.machine_of(fd.cls)
        is_input = mach is not None and fd.qualname.split(".")[-1] in mach.inputs
    try:
        try:
            it.depth += 1
            if is_input:
                # an Automat input under contract: dispatched through the real transition table
                argn = [a.arg for a in fd.node.args.args][1:]
                result = reg.automat.maybe_dispatch(it, VFunc(fd, selfobj), fd, [selfobj] + [body_fr.locals[a] for a in argn],
                                                    {}, body_fr)
            else:
                it.exec_block(fd.node.body, body_fr)
                result = NONE
        except ReturnSig as r:
            result = r.value
        finally:
            it.depth -= 1
    except PyRaise as e:
        ecls = e.exc.cls
        pr.outcome = "raise:" + ecls
        pr.exc, pr.selfobj = e.exc, selfobj          # read by pyvc/xcheck.py (thorough tier) only
        allowed = None
        for k in list(c.raises) + list(c.raises_exactly):
            if reg.is_subclass(ecls, k):
                allowed = k
                break
        if allowed is None:
            ctx.prove(False, f"{key}.no-exception[{ecls}]", {"kind": "no-exception", "exc": ecls})
        else:
            cond = c.raises_exactly.get(allowed, c.raises.get(allowed))
            if cond:
                ctx.prove(it.truth(it.eval_spec(cond, old)), f"{key}.raises[{allowed}].only-if",
                          {"kind": "raises-cond", "src": cond})
            for name, ex in c.ensures_raise.get(allowed, []):
                ctx.prove(it.truth(it.eval_spec(ex, post_fr, old=old)), f"{key}.ensures_raise[{allowed}].{name}",
                          {"kind": "ensures-raise", "src": ex})
            ctx.cover("raise:" + allowed)
        check_frame(it, c, key, old, selfobj)
    else:
        pr.outcome = "return"
        pr.result, pr.selfobj = result, selfobj      # read by pyvc/xcheck.py (thorough tier) only
        ctx.cover("return")
        for ecls, cond in c.raises_exactly.items():
            ctx.prove(z3.Not(it.truth(it.eval_spec(cond, old))), f"{key}.raises[{ecls}].if",
                      {"kind": "raises-iff", "src": cond})
        for name, ex in c.ensures + c.internal_ensures:
            ctx.prove(it.truth(it.eval_spec(ex, post_fr, old=old, result=result)), f"{key}.ensures.{name}",
                      {"kind": "ensures", "src": ex if isinstance(ex, str) else name})
        for name, fn in c.trace_ensures:
            fn(it, ctx, post_fr, old, result, f"{key}.trace.{name}")
        if c.effects is not None:
            evs = [e for e in ctx.trace if e[0] == "bcall"]
            names_ok = [e[1][1] for e in evs] == [m for m, _ in c.effects]
            ctx.prove(z3.BoolVal(names_ok), f"{key}.effects.sequence",
                      {"kind": "effects", "definite": True,
                       "src": f"boundary calls are exactly {[m for m, _ in c.effects]} (observed {[e[1][1] for e in evs]})"})
            if names_ok:
                for k, ((m, argx), e) in enumerate(zip(c.effects, evs)):
                    for j, a in enumerate(argx):
                        if j >= len(e[1][2]):
                            ctx.prove(False, f"{key}.effects.{k}.{m}.arg{j}", {"kind": "effects", "definite": True})
                            continue
                        want = it.eval_spec(a, post_fr, old=old, result=result)
                        ctx.prove(it.eq(want, e[1][2][j]), f"{key}.effects.{k}.{m}.arg{j}",
                                  {"kind": "effects", "src": f"{m}(arg{j}) == {a}"})
        check_frame(it, c, key, old, selfobj)
    if c.post_hook:
        c.post_hook(it, post_fr, old, pr)
    pr.trace = ctx.trace
    return pr


def mutable_identity(it, v):
    """the python wrapper that carries the identity of a mutable container value (None for immutables)"""
    try:
        v = it.force(v)
    except Exception:
        return None
    if isinstance(v, VOpt):
        v = v.inner
    if isinstance(v, VTuple):
        return None
    if isinstance(v, (VList, VSeq, VSet, VDict, VMap)):
        return v
    return None


def check_no_new_alias(it, key, old, selfobj):
    """Contracts describe each field on its own (separation of distinct field names is the frame
    assumption of every contract); so no method may leave two fields of self holding ONE mutable
    container unless they already did at entry.  Container wrappers have python identity here because
    control flow is concrete on a path."""
    if selfobj is None:
        return
    seen = {}
    shared = []
    n = 0
    for f in sorted(selfobj.fields):
        m = mutable_identity(it, selfobj.fields[f])
        if m is None:
            continue
        n += 1
        g = seen.get(id(m))
        if g is None:
            seen[id(m)] = f
        else:
            shared.append((g, f))
    if n < 2:
        return
    # the pre-state is built field by field (never aliased), so any sharing found here was introduced by the body
    it.ctx.prove(z3.BoolVal(not shared), f"{key}.frame.no-aliasing",
                 {"kind": "frame", "definite": True,
                  "src": "no two fields of self hold one and the same mutable container after the call"
                         + (f" (shared: {shared})" if shared else "")})


def check_frame(it, c, key, old, selfobj):
    check_no_new_alias(it, key, old, selfobj)
    if selfobj is None or c.self_fields is None:
        return
    oldself = old.selfobj
    mods = set(m.split(".")[1] if m.startswith("self.") else m.split(".")[0] for m in c.modifies)
    for f in c.self_fields:
        if f in mods:
            continue
        a, b = oldself.fields.get(f), selfobj.fields.get(f)
        if a is None or b is None:
            if a is not b:
                it.ctx.prove(False, f"{key}.frame.{f}", {"kind": "frame"})
            continue
        if isinstance(a, VObj) and isinstance(b, VObj) and a.oid == b.oid:
            continue
        if isinstance(a, VOpt) and isinstance(b, VOpt) and isinstance(a.inner, VObj) and isinstance(b.inner, VObj) \
                and a.inner.oid == b.inner.oid:
            # Optional[collaborator]: same object, so only None-ness can have changed
            it.ctx.prove(a.isnone == b.isnone, f"{key}.frame.{f}", {"kind": "frame", "src": f"self.{f} unchanged"})
            continue
        e = it.eq(a, b)
        it.ctx.prove(e, f"{key}.frame.{f}", {"kind": "frame", "src": f"self.{f} unchanged"})


def _pc_unsat(ctx, timeout_ms=20000):
    """is the path condition unsatisfiable?  Asked in a z3 context of its own (the answer of the sequence solver depends on
    what the process-wide context has seen before: the same query was `unsat` in 0.1 s in a fresh process and `unknown`
    after other tasks had run), with two seeds; anything but a definite `unsat` is False"""
    from .ctx import _has_quantifier
    # the quantifier-free conjuncts alone first (fewer hypotheses: their `unsat` carries over, and it is what the solver
    # can decide at once - the contradiction is typically `x is None` against `x is not None`), then everything
    for seed, qf_only in ((0, True), (0, False), (11, False)):
        try:
            c2 = z3.Context()
            s = z3.Solver(ctx=c2)
            s.set("timeout", timeout_ms)
            s.set("random_seed", seed)
            for p in ctx.pc:
                if qf_only and _has_quantifier(p):
                    continue
                s.add(p.translate(c2))
            r = s.check()
            if r == z3.unsat:
                return True
            if r == z3.sat and not qf_only:
                return False
        except Exception:
            pass
    return False


def explore(run_path, max_paths=4000, branch_timeout_ms=1500, prefix=()):
    """enumerate all paths of run_path(ctx) by re-execution; returns (paths, stats)"""
    work = [list(prefix)]
    results = []
    npaths = 0
    truncated = False
    while work:
        dec = work.pop()
        ctx = Ctx(dec, branch_timeout_ms)
        pr = None
        try:
            pr = run_path(ctx)
        except PathEnd as e:
            pr = PathResult()
            pr.outcome = "end:" + str(e)
        except OutOfSubset as e:
            pr = PathResult()
            pr.outcome = "out-of-subset"
            pr.error = str(e)
            # a branch is kept when its feasibility check times out (sound for proofs), and an infeasible branch can run into
            # an ill-typed operation (forcing an Optional that the path condition says is not None): before the function is
            # declared out of reach the path condition gets a long budget - an unsatisfiable one means the path does not exist
            # (the undecided check may have happened on the parent path: decisions are replayed, not re-checked)
            if _pc_unsat(ctx):
                pr.outcome = "end:infeasible (decided with the long budget)"
                pr.error = None
        pr.vcs = ctx.vcs
        pr.inputs = ctx.inputs
        pr.decisions = list(ctx.decisions)
        pr.covered = ctx.covered
        pr.trace = ctx.trace
        results.append(pr)
        work.extend(ctx.alts)
        npaths += 1
        if npaths >= max_paths:
            truncated = bool(work)
            break
    return results, {"paths": npaths, "truncated": truncated}
