import argparse
import sys
from . import runner

ap = argparse.ArgumentParser()
ap.add_argument("prop")
ap.add_argument("--tier", default="quick")
ap.add_argument("--seed", type=int, default=0)
import os
ap.add_argument("--jobs", type=int, default=int(os.environ.get("VERIF_JOBS", "0")) or None)
ap.add_argument("--update-baseline", action="store_true")
a = ap.parse_args()
sys.exit(runner.main(a.prop, a.tier, a.seed, a.jobs, a.update_baseline))
