"""Driver of the composed-machine verifier: explores every entry point from an arbitrary
state satisfying the invariant, collects the obligations (O-dom, O-assert, O-exc, O-post),
finds the invariant clauses a path fails to re-establish (Houdini), iterates to a fixpoint
(only ever *removing* clauses, so the result is inductive), and reports the obligations
under the final invariant."""
import ast
import json
import multiprocessing as mp
import os
import time
import traceback
import z3

from .values import *      # noqa
from .ctx import Ctx, PathEnd, guarded_check
from .interp import Interp, Frame, PyRaise, ReturnSig, BreakSig, ContinueSig, assigned_targets, static_loop_ordinal
from .cluster import fast_and, Cluster, clause_key, clause_from_key, clause_text
from . import solve, source


class Entry:
    """one thing the environment can do"""

    def __init__(self, name, run, allowed_exc=(), doc=""):
        self.name = name
        self.run = run                  # run(eng, it, objs) - assumes its environment contract, invokes the real code
        self.allowed_exc = tuple(allowed_exc)
        self.doc = doc


class MEngine:
    def __init__(self, name, make_reg, make_spec, entries, cache_file):
        self.name = name
        self.make_reg = make_reg
        self.make_spec = make_spec
        self.entries = entries
        self.cache_file = cache_file
        self._ctx = None

    # ---------------------------------------------------------------- one path
    def run_path(self, ctx, entry, inv):
        """inv: {cut_id: [clause keys]}; returns dict with violated clauses per cut"""
        reg = self.make_reg()
        reg.assert_mode = "prove"
        reg.cluster_engine = self
        spec = self.make_spec()
        cl = Cluster(spec, reg)
        it = Interp(ctx, reg)
        self._cl = cl
        if inv is not getattr(self, "_inv", None):
            self._active_memo = {}
        self._inv = inv
        self._violated = {}
        self._it = it
        objs = cl.build(it)
        cl.havoc(it, objs, "pre")
        if getattr(spec, "setup", None):
            spec.setup(it, objs)
        self._objs = objs
        reg.ghost_obj = objs["ghost"]
        self._cuts_seen = set()
        # const fields of objects must exist before wiring-dependent code runs
        self.assume_inv(it, objs, "entry")
        ctx.inputs = {}
        self._pre_snapshot = {c.cid: None for c in cl.components}
        pre_comp = {}
        for c in cl.components:
            for v in c.domain:
                pre_comp[(c.cid, v)] = cl.comp_eq(it, objs, c, v)
        ctx.pre_comp = pre_comp
        try:
            entry.run(self, it, objs)
        except PyRaise as e:
            ecls = e.exc.cls
            if not any(reg.is_subclass(ecls, a) for a in entry.allowed_exc):
                ctx.prove(False, f"exc:{entry.name}:{ecls}", {"kind": "exc", "definite": True, "exc": ecls,
                                                             "src": f"{entry.name} raises no {ecls}"})
                raise PathEnd(f"exception {ecls}")
        self.check_inv(it, objs, "entry")
        return self._violated

    def clauses_at(self, cut):
        """the *active* clauses of a cut point: unary ones, and the pairwise ones that no live unary
        clause already implies (those are neither assumed nor checked; they become active - and are
        then checked - in the round after their unary clause is dropped, and the fixpoint needs a
        whole round without removals)"""
        self._cuts_seen = getattr(self, "_cuts_seen", set()) | {cut}
        memo = self.__dict__.setdefault("_active_memo", {})
        if cut in memo:
            return memo[cut]
        ks = self._inv.get(cut)
        if ks is None:
            ks = self._inv.get("*", [])     # first time this cut point is seen: the whole template
        parsed = [(k, clause_from_key(k)) for k in ks]
        mods = self.__dict__.setdefault("_cut_mods", {}).get(cut, None)
        if cut != "entry" and mods is not None:
            # at a loop head only what the loop may modify is havocked; every other component keeps its
            # pre-loop value (frame), so a clause that mentions no havocked component carries nothing:
            # it is dropped from this cut's set without asking the solver (dropping is always sound)
            where = {c.cid: (c.obj, c.field) for c in self._cl.components}
            keep, drop = [], []
            for k, cl_ in parsed:
                (keep if any(where.get(l[0]) in mods for l in cl_) else drop).append((k, cl_))
            if drop:
                self._violated.setdefault(cut, set()).update(k for k, _ in drop)
            parsed = keep
        unary = {cl[0] for k, cl in parsed if len(cl) == 1}
        act = [k for k, cl in parsed if len(cl) == 1 or not any(l in unary for l in cl)]
        memo[cut] = act
        return act

    def assume_inv(self, it, objs, cut):
        keys = self.clauses_at(cut)
        cl = self._cl
        conj = cl.conj_ph(keys, ("conj", cut, id(keys)))
        it.ctx.assume(z3.substitute(conj, cl.literal_map(it, objs)))

    def check_inv(self, it, objs, cut):
        keys = self.clauses_at(cut)
        if not keys:
            return
        cl = self._cl
        lmap = cl.literal_map(it, objs)
        parsed = self.__dict__.setdefault("_parsed_memo", {})
        pk = ("parsed", cut, id(keys))
        if pk not in parsed:
            parsed[pk] = [(k, clause_from_key(k)) for k in keys]
        remaining = parsed[pk]
        s = it.ctx.solver
        bad_all = []
        first = True
        _t0, _n = time.time(), 0
        dbg = os.environ.get("VERIF_DEBUG_INV")
        s2 = None          # set once the path's own solver gave up: abstraction solvers are used from then on
        solvers, absmemos, lvl_min, mlvl = [None, None], [{}, {}], 0, 0
        decided = []
        while remaining:
            _n += 1
            if dbg and _n % 20 == 0:
                print(f"  [inv] {cut}: iteration {_n}, remaining {len(remaining)}, {time.time()-_t0:.1f}s", flush=True)
            conj = cl.conj_ph(keys, ("conj", cut, id(keys))) if first else \
                fast_and([cl.clause_ph(c) for _, c in remaining])
            first = False
            goal = z3.Not(z3.substitute(conj, lmap))
            m = None
            done = False
            if s2 is None:
                s.push()
                try:
                    if os.environ.get("VERIF_INV_RANDOM"):
                        s.set("phase_selection", 5)
                        s.set("random_seed", _n)
                    s.add(goal)
                    r = guarded_check(s, 2500)
                    if r == z3.unknown:
                        # a busy machine makes 2.5 s tight; the abstraction below is lossy, so ask once more, longer
                        s.set("timeout", 12000)
                        r = guarded_check(s, 12000)
                        s.set("timeout", it.ctx.branch_timeout_ms)
                    if r == z3.unsat:
                        done = True
                    elif r == z3.sat:
                        m = s.model()
                finally:
                    s.pop()
                if done:
                    break
                if m is None:
                    # undecided (string constraints on the path): from here on ask solvers that hold an abstraction
                    # of the path condition - weaker hypotheses, so at worst clauses are dropped needlessly
                    s2 = True
                    self._unknown_checks = getattr(self, "_unknown_checks", 0) + 1
                    # what the path's own solver can still decide about the component literals that mention strings
                    # (is this optional string empty, ...) is asked literal by literal and handed to the abstraction
                    # solvers as facts about the abstracted atoms, so that the abstraction does not lose it
                    decided = []
                    for (_lit, e_) in lmap:
                        if z3.is_true(e_) or z3.is_false(e_) or not _mentions_strings(e_):
                            continue
                        for cand in (e_, z3.Not(e_)):
                            s.push()
                            try:
                                s.add(cand)
                                rr = guarded_check(s, 800)
                            finally:
                                s.pop()
                            if rr == z3.unsat:
                                decided.append(z3.Not(cand) if cand is e_ else e_)
                                break
            if m is None:
                for lvl in range(lvl_min, 2):
                    # level 0: string atoms abstracted; level 1: everything outside QF Bool/Int/UF abstracted
                    if solvers[lvl] is None:
                        sx = z3.Solver()
                        sx.set("timeout", 5000)
                        sx.set("phase_selection", 5)
                        for a_ in list(it.ctx.pc) + decided:
                            sx.add(_abstract_strings(a_, absmemos[lvl], hard=(lvl == 1)))
                        solvers[lvl] = sx
                    sx = solvers[lvl]
                    sx.push()
                    try:
                        sx.set("random_seed", _n)
                        sx.add(_abstract_strings(goal, absmemos[lvl], hard=(lvl == 1)))
                        r2 = guarded_check(sx, 5000)
                        if r2 == z3.unsat:
                            done = True
                        elif r2 == z3.sat:
                            m = sx.model()
                            mlvl = lvl
                    finally:
                        sx.pop()
                    if done or m is not None:
                        break
                    lvl_min = lvl + 1        # this level gave up: do not ask it again on this call
                if done:
                    break
                if m is None:
                    bad_all += [k for k, _ in remaining]     # still undecided: drop them (always sound)
                    if os.environ.get("VERIF_DEBUG_VIOL") or dbg:
                        print(f"   DROP-ALL at {cut}: {len(remaining)} clauses, every abstraction level undecided", flush=True)
                    break
            val = {}
            ph = cl.placeholders()
            for (lit, e) in zip(ph.keys(), [x[1] for x in lmap]):
                if s2 is not None:
                    e = _abstract_strings(e, absmemos[mlvl], hard=(mlvl == 1))
                val[lit] = z3.is_true(m.eval(e, model_completion=True))
            bad = [k for k, c in remaining if all(val[l] for l in c)]
            if not bad:
                break
            bad_all += bad
            bs = set(bad)
            remaining = [(k, c) for k, c in remaining if k not in bs]
        if dbg:
            print(f"  [inv] {cut}: {len(keys)} active, {_n} solver rounds, {len(bad_all)} dropped, {time.time()-_t0:.1f}s", flush=True)
        if bad_all:
            self._violated.setdefault(cut, set()).update(bad_all)

    # ---------------------------------------------------------------- loops inside cluster code
    def cluster_loop(self, it, s, fr, itv):
        """cut a loop in cluster code at its head: own clause set, havoc of what the body may modify"""
        fn = fr.fdef.key
        ordn = static_loop_ordinal(fr.fdef, s)
        cut = f"{fn}#loop{ordn}"
        objs = self._objs
        for nm, ty in getattr(self, "local_types", {}).get(fn, {}).items():
            it.retype_local(fr, nm, ty)
        mods = may_modify(self, fr, s.body)
        if mods is not None:
            self.__dict__.setdefault("_cut_mods", {})[cut] = set(mods)
        if os.environ.get("VERIF_DEBUG_MODS") and cut not in self.__dict__.setdefault("_mods_shown", set()):
            self._mods_shown.add(cut)
            print(f"   MODS {cut}: {'ALL' if mods is None else sorted(mods)}", flush=True)
        self.check_inv(it, objs, cut)
        self.havoc_mods(it, objs, mods, fr, s, itv)
        self.assume_inv(it, objs, cut)
        # loop condition / iteration
        if itv is None:
            enter = it.ctx.branch(it.truth(it.eval(s.test, fr)), f"while@{s.lineno}")
        else:
            if isinstance(itv, VSeq):
                idx = VInt(z3.Int(it.ctx.namer("_i")))
                it.ctx.assume(z3.And(idx.z >= 0, idx.z <= z3.Length(itv.z)))
                enter = it.ctx.branch(idx.z < z3.Length(itv.z), f"for@{s.lineno}")
                if enter:
                    it.assign(s.target, from_z3(itv.z[idx.z], itv.elem), fr)
            elif isinstance(itv, VSet):
                k = z3.Const(it.ctx.namer("elem"), itv.z.sort().domain())
                enter = it.ctx.choose([z3.BoolVal(True), z3.BoolVal(True)], f"for@{s.lineno}") == 0
                if enter:
                    it.ctx.assume(itv.z[k])
                    mp_ = getattr(itv, "items_of", None)
                    if mp_ is not None:       # for k, v in d.items(): an arbitrary present key with its value
                        it.assign(s.target, VTuple([from_z3(k, mp_.kt), from_z3(z3.Select(mp_.val, k), mp_.vt)]), fr)
                    else:
                        it.assign(s.target, from_z3(k, itv.elem), fr)
            elif isinstance(itv, VMap) or getattr(itv, "is_items", False):
                raise OutOfSubset("cluster loop over dict")
            else:
                raise OutOfSubset(f"cluster loop over {itv!r}")
        if enter:
            try:
                try:
                    it.exec_block(s.body, fr)
                except ContinueSig:
                    pass
            except BreakSig:
                return
            self.check_inv(it, objs, cut)
            raise PathEnd("loop cut")
        if getattr(s, "orelse", None):
            it.exec_block(s.orelse, fr)

    def havoc_mods(self, it, objs, mods, fr, s, itv):
        spec = self._cl.spec
        if mods is None:
            self._cl.havoc(it, objs, "loop")
        else:
            for (nm, f) in sorted(mods):
                o = objs[nm]
                if f == "__state":
                    self._cl.am.fresh_state(it, o, self._cl.classes[nm], f"loop.{nm}")
                    continue
                t = (spec.fields.get(o.cls, {}).get(f) if nm != "ghost" else spec.ghost[f][0])
                if t is None:
                    continue
                cur = o.fields.get(f)
                nv = it.fresh(t, f"loop.{nm}.{f}")
                if isinstance(cur, (VSeq, VSet)) and isinstance(nv, type(cur)):
                    cur.z = nv.z
                elif isinstance(cur, VMap) and isinstance(nv, VMap):
                    cur.present, cur.val = nv.present, nv.val
                else:
                    o.fields[f] = nv
        for tg in sorted(assigned_targets(s.body, it, fr), key=str):
            if tg[0] == "local":
                it.havoc_target(tg, fr)
        if itv is not None:
            for n in ast.walk(s.target):
                if isinstance(n, ast.Name):
                    it.havoc_target(("local", n.id), fr)


from .ctx import _abstract_strings, _mentions_strings    # noqa


def _conjuncts(e):
    out, stack = [], [e]
    while stack:
        x = stack.pop()
        if z3.is_and(x):
            stack.extend(x.children())
        else:
            out.append(x)
    return out


def violated(ctx, forms):
    """which of the formulas can be false at this point of the path (Houdini step)"""
    remaining = {k: f for k, f in forms.items() if not z3.is_true(z3.simplify(f))}
    out = []
    s = ctx.solver
    while remaining:
        s.push()
        try:
            s.add(z3.Or([z3.Not(f) for f in remaining.values()]))
            r = guarded_check(s, 20000)
            if r == z3.unsat:
                break
            if r != z3.sat:
                # undecided: drop them all (weakens the invariant, which is always sound)
                out += list(remaining)
                break
            m = s.model()
            bad = [k for k, f in remaining.items() if not z3.is_true(m.eval(f, model_completion=True))]
        finally:
            s.pop()
        if not bad:
            break
        out += bad
        for k in bad:
            del remaining[k]
    return out


def may_modify(eng, fr, stmts, depth=0, seen=None):
    """static over-approximation of the cluster state a block of cluster code can change:
    set of (object short name, field) incl. '__state'; None = unknown (havoc everything)"""
    cl = eng._cl
    objs = eng._objs
    byobj = {id(o): nm for nm, o in objs.items()}
    seen = seen if seen is not None else set()
    out = set()

    def owner_name(obj):
        return byobj.get(id(obj))

    def visit_block(stmts, selfobj, depth):
        nm = owner_name(selfobj)
        for st in stmts:
            for n in ast.walk(st):
                tgt = None
                if isinstance(n, ast.Assign):
                    tgts = n.targets
                elif isinstance(n, (ast.AugAssign, ast.AnnAssign)):
                    tgts = [n.target]
                elif isinstance(n, ast.Delete):
                    tgts = n.targets
                else:
                    tgts = []
                for t in tgts:
                    base = t
                    while isinstance(base, ast.Subscript):
                        base = base.value
                    if isinstance(base, ast.Attribute) and isinstance(base.value, ast.Name) and base.value.id == "self" and nm:
                        out.add((nm, base.attr))
                        for g in getattr(eng, "field_ghost_effects", {}).get((selfobj.cls, base.attr), []):
                            out.add(("ghost", g))
                if isinstance(n, ast.Call) and isinstance(n.func, ast.Attribute):
                    f = n.func
                    # self.x.mutator(...)
                    if f.attr in ("append", "appendleft", "pop", "popleft", "add", "remove", "discard", "clear", "extend",
                                  "update", "insert", "setdefault") and isinstance(f.value, ast.Attribute) \
                            and isinstance(f.value.value, ast.Name) and f.value.value.id == "self" and nm:
                        out.add((nm, f.value.attr))
                    # self.meth(...) / self._X.meth(...)
                    target_obj = None
                    if isinstance(f.value, ast.Name) and f.value.id == "self":
                        target_obj = selfobj
                    elif isinstance(f.value, ast.Attribute) and isinstance(f.value.value, ast.Name) and f.value.value.id == "self":
                        target_obj = selfobj.fields.get(f.value.attr) if selfobj is not None else None
                        if isinstance(target_obj, VOpt):
                            target_obj = target_obj.inner
                        if isinstance(target_obj, VOpaque):
                            # an opaque boundary value (e.g. the websocket): effects by its declared class
                            tbl = getattr(eng, "ghost_effects", {})
                            eff = tbl.get(f"{target_obj.name}.{f.attr}", tbl.get(f"{target_obj.name}.*"))
                            if eff is None:
                                eff = list(cl.spec.ghost)
                            for g in eff:
                                out.add(("ghost", g))
                            target_obj = None
                        if target_obj is not None and not isinstance(target_obj, VObj):
                            target_obj = None
                    if target_obj is not None:
                        if not visit_call(target_obj, f.attr, depth):
                            return False
                    elif isinstance(f.value, ast.Name) and f.value.id not in ("self",):
                        # a call on a local value (Deferred, list, str, ...): ghost effects by method name; a method
                        # name the engine does not declare is taken to touch all ghost state
                        eff = getattr(eng, "ghost_effects", {}).get(f"*.{f.attr}")
                        if eff is None:
                            eff = list(cl.spec.ghost)
                            if os.environ.get("VERIF_DEBUG_MODS"):
                                print(f"   MODS: undeclared local call .{f.attr}() in {nm}", flush=True)
                        for g in eff:
                            out.add(("ghost", g))
                if isinstance(n, ast.Call):
                    # a bound method of this object passed as an argument (callback) may be run by the callee
                    for a in list(n.args) + [k.value for k in n.keywords]:
                        if isinstance(a, ast.Attribute) and isinstance(a.value, ast.Name) and a.value.id == "self" \
                                and selfobj is not None and eng._it.find_method(selfobj.cls, a.attr) is not None:
                            if not visit_call(selfobj, a.attr, depth):
                                return False
                if isinstance(n, ast.Call) and isinstance(n.func, ast.Name) and n.func.id in ("getattr", "setattr"):
                    return False
                if isinstance(n, ast.Call) and isinstance(n.func, ast.Name):
                    for g in getattr(eng, "ghost_effects", {}).get(f"func:{n.func.id}", []):
                        out.add(("ghost", g))
        return True

    def visit_call(obj, meth, depth):
        onm = owner_name(obj)
        if onm is None or onm == "ghost":
            # boundary object: the ghost state its model may touch is declared by the engine; an
            # undeclared boundary call is taken to touch all of it
            tbl = getattr(eng, "ghost_effects", {})
            eff = tbl.get(f"{obj.cls}.{meth}", tbl.get(f"{obj.cls}.*"))
            if eff is None:
                eff = list(cl.spec.ghost)
            for g in eff:
                out.add(("ghost", g))
            # a boundary callback that may call back into the cluster (delegated application): what it may run
            rtbl = getattr(eng, "boundary_reenters", {})
            for (onm2, meth2) in rtbl.get(f"{obj.cls}.{meth}", rtbl.get(f"{obj.cls}.*", [])):
                out.add(("ghost", "api_closed"))
                if not visit_call(objs[onm2], meth2, depth + 1):
                    return False
            return True
        key = (onm, meth)
        if key in seen:
            return True
        seen.add(key)
        if depth > 60:
            return False
        cd = cl.classes[onm]
        m = cl.am.machine_of(cd)
        if m is not None and meth in m.inputs:
            out.add((onm, "__state"))
            for g in getattr(eng, "input_ghost_effects", {}).get((cd.name, meth), []):
                out.add(("ghost", g))
            for (st, inp), (enter, outs, coll) in m.table.items():
                if inp == meth:
                    for o in outs:
                        if not visit_block(m.outputs[o].node.body, obj, depth + 1):
                            return False
            return True
        fd = eng._it.find_method(obj.cls, meth)
        if fd is None:
            return True
        return visit_block(fd.node.body, obj, depth + 1)

    ok = visit_block(stmts, fr.selfobj, depth)
    return out if ok else None


# ====================================================================== multi-round driver
ROOT = os.path.dirname(os.path.dirname(os.path.abspath(__file__)))
_ENGINES = {}


def _worker(args):
    try:
        import faulthandler, signal
        faulthandler.register(signal.SIGUSR1, file=open(f"/tmp/mrun_stack_{os.getpid()}.txt", "w"), all_threads=False)
    except Exception:
        pass
    factory_mod, factory_name, entry_idx, inv, tier = args[:5]
    if inv is None:
        inv = _SHARED["inv"]
    prefix = args[5] if len(args) > 5 else []
    import importlib
    t0 = time.time()
    try:
        key = (factory_mod, factory_name)
        if key not in _ENGINES:
            _ENGINES[key] = getattr(importlib.import_module(factory_mod), factory_name)()
        eng = _ENGINES[key]
        entry = eng.entries[entry_idx]
        return explore_entry(eng, entry, inv, tier, t0, prefix)
    except Exception:
        return {"entry": entry_idx, "crash": traceback.format_exc(), "violated": {}, "obligations": [], "paths": 0,
                "wall": time.time() - t0, "cuts": [], "leftover": [], "idx": entry_idx}


UNIT_PATHS = 1
_WATCH = set(json.loads(os.environ.get("VERIF_WATCH_CLAUSES", "[]")))


def explore_entry(eng, entry, inv, tier, t0, prefix=(), limit=None):
    """explores the subtree of decision prefix `prefix`; after `limit` paths the unexplored
    alternatives are handed back (`leftover`) so that other processes can take them"""
    from .contract import explore
    timeout = 10000 if tier == "quick" else 60000
    limit = limit or UNIT_PATHS
    unk0 = getattr(eng, "_unknown_checks", 0)
    work = [list(prefix)]
    leftover = []
    violated_all = {}
    obs = {}
    npaths = 0
    cuts = set()
    oos = []
    while work:
        dec = work.pop()
        ctx = Ctx(dec, 3000)
        ctx.eager = True
        ctx.abs_first = not os.environ.get("VERIF_NO_ABS_FIRST")
        _tp = time.time()
        outcome = "ok"
        try:
            v = eng.run_path(ctx, entry, inv)
        except PathEnd as e:
            v = eng._violated
            outcome = "end:" + str(e)
        except OutOfSubset as e:
            v = {}
            oos.append(str(e))
            outcome = "oos"
        npaths += 1
        work.extend(ctx.alts)
        if os.environ.get("VERIF_DEBUG_TIMES"):
            print(f"   path {dec} -> {outcome}: {time.time()-_tp:.1f}s feas(n,secs,unknown)={getattr(ctx, 'feas_stats', None)} "
                  f"vcs={len(ctx.vcs)}", flush=True)
        if os.environ.get("VERIF_DEBUG"):
            print("   path", dec, "->", outcome, "| events:", [(e[0], e[1][0] if e[1] else None) + ((e[1][3], e[1][4]) if e[0] == "input" and len(e[1]) > 4 else ()) for e in ctx.trace][:40], flush=True)
        for cut, ks in (v or {}).items():
            violated_all.setdefault(cut, set()).update(ks)
            if _WATCH and cut == "entry":
                hit = [k for k in ks if k in _WATCH]
                if hit:
                    print(f"   WATCH {entry.name} path {dec} -> {outcome}: " + "; ".join(clause_text(clause_from_key(k)) for k in hit)
                          + "\n      events: " + str([(e[0], e[1][0] if e[1] else None) + ((e[1][3], e[1][4]) if e[0] == "input" and len(e[1]) > 4 else ()) for e in ctx.trace][:60]), flush=True)
            if os.environ.get("VERIF_DEBUG_VIOL") and cut == os.environ.get("VERIF_DEBUG_VIOL"):
                real = [k for k in ks if k in set(inv.get(cut, []))]
                if real:
                    print(f"   VIOL {cut} path {dec} -> {outcome}: {len(real)}: "
                          + "; ".join(clause_text(clause_from_key(k)) for k in sorted(real)[:6]), flush=True)
                    print("      events:", [(e[0], e[1][0] if e[1] else None) + ((e[1][3], e[1][4]) if e[0] == "input" and len(e[1]) > 4 else ()) for e in ctx.trace][:60], flush=True)
        cuts |= set(getattr(eng, "_cuts_seen", []))
        for vc in ctx.vcs:
            r = getattr(vc, "verdict", None) or solve.solve_vc(vc, timeout, use_cvc5=False)
            cur = obs.get(r.name)
            rank = {"discharged": 0, "unknown": 1, "failed": 2}
            cti = None
            if r.status == "failed" and r.model is not None:
                cti = cti_of(eng, ctx, r.model, entry)
            if cur is None:
                cur = obs[r.name] = {"name": r.name, "status": r.status, "backend": r.backend, "secs": r.secs,
                                     "trivial": r.trivial, "meta": r.meta, "smt_hash": r.smt_hash, "paths": 0,
                                     "hashes": [], "failures": [], "cex": None, "detail": None, "replay": None, "smt2": None}
            cur["paths"] += 1
            cur["secs"] = round(cur["secs"] + r.secs, 4)
            cur["hashes"].append(r.smt_hash)
            cur["trivial"] = cur["trivial"] and r.trivial
            if rank[r.status] > rank[cur["status"]]:
                cur["status"] = r.status
                cur["backend"] = r.backend
            if r.status == "failed" and len(cur["failures"]) < 8:
                cur["failures"].append({"cex": cti, "detail": {"entry": entry.name, "decisions": list(ctx.decisions)}})
        if npaths >= limit and work:
            leftover = work
            break
    return {"entry": entry.name, "leftover": leftover, "violated": {c: sorted(ks) for c, ks in violated_all.items()},
            "obligations": list(obs.values()), "paths": npaths, "wall": round(time.time() - t0, 2),
            "oos": sorted(set(oos))[:5], "crash": None, "cuts": sorted(cuts), "idx": eng.entries.index(entry),
            "inv_checks_abstracted": getattr(eng, "_unknown_checks", 0) - unk0}


def cti_of(eng, ctx, model, entry):
    """counterexample to induction: the pre-state components and the event"""
    pre = {}
    comp = {c.cid: c for c in eng._cl.components}
    for (cid, val), e in getattr(ctx, "pre_comp", {}).items():
        try:
            if z3.is_true(model.eval(e, model_completion=True)):
                pre[cid] = val
        except z3.Z3Exception:
            pass
    params = {}
    for k, v in (ctx.inputs or {}).items():
        try:
            params[k] = solve.concretize(v, model)
        except Exception:
            params[k] = None
    return {"entry": entry.name, "pre": pre, "params": params}


_SHARED = {}     # set in the parent before the workers are forked (the clause sets are large)


def dynamic_explore(units, jobs, ctxm, mk_unit):
    """work queue: every finished unit's unexplored alternatives are submitted at once (no batch barrier);
    a worker that dies or exceeds its deadline is replaced and its unit retried once (pyvc/pool.py)"""
    from . import pool as P

    def fail(x, why):
        return {"entry": x[2], "idx": x[2], "crash": f"{why} [entry #{x[2]}, decision prefix {list(x[5])}]", "violated": {},
                "obligations": [], "paths": 0, "wall": 0,
                "cuts": [], "leftover": []}

    return P.run(_worker, units, jobs, deadline_s=3600, on_fail=fail,
                 expand=lambda r: [mk_unit(r, p) for p in r.get("leftover", [])])


def initial_clauses(eng, universe):
    """the clauses of the template that hold in the initial state"""
    reg = eng.make_reg()
    spec = eng.make_spec()
    cl = Cluster(spec, reg)
    ctx = Ctx([])
    it = Interp(ctx, reg)
    eng._cl, eng._it = cl, it
    objs = cl.build(it)
    cl.set_initial(it, objs)
    if getattr(spec, "setup", None):
        spec.setup(it, objs, initial=True)
    reg.ghost_obj = objs["ghost"]
    keep = []
    cache = {}
    for k in universe:
        f = z3.simplify(cl.clause_z3(it, objs, clause_from_key(k), cache))
        if z3.is_true(f):
            keep.append(k)
        elif not z3.is_false(f):
            s = z3.Solver()
            for p in ctx.pc:
                s.add(p)
            s.add(z3.Not(f))
            if s.check() == z3.unsat:
                keep.append(k)
    return keep


def run_engine(factory_mod, factory_name, tier="quick", jobs=16, max_rounds=40, infer=False, log=print):
    import importlib
    eng = getattr(importlib.import_module(factory_mod), factory_name)()
    reg = eng.make_reg()
    cl = Cluster(eng.make_spec(), reg)
    universe = [clause_key(c) for c in cl.all_clauses()]
    cached = None
    cfile = os.environ.get("VERIF_INV_OVERRIDE") or eng.cache_file        # debugging aid (tools/m_why.py)
    if os.path.exists(cfile) and not infer:
        with open(cfile) as f:
            cached = json.load(f)
    t0 = time.time()
    if cached is not None:
        uni = set(universe)
        inv = {cut: [k for k in ks if k in uni] for cut, ks in cached["inv"].items()}
        # components the cached invariant has never heard of (added since): all their template
        # clauses are candidates again (the cached set plus these is still a superset of the fixpoint)
        known = set()
        for ks in inv.values():
            for k in ks:
                for cid, _ in clause_from_key(k):
                    known.add(cid)
        newc = {c.cid for c in cl.components} - known
        if newc:
            extra = [k for k in universe if any(cid in newc for cid, _ in clause_from_key(k))]
            for cut in inv:
                have = set(inv[cut])
                inv[cut] += [k for k in extra if k not in have]
            log(f"[{eng.name}] new components {sorted(newc)}: {len(extra)} candidate clauses added to every cut")
        init_ok = set(initial_clauses(eng, inv.get("entry", [])))
        inv["entry"] = [k for k in inv.get("entry", []) if k in init_ok]
    else:
        inv = {"entry": initial_clauses(eng, universe)}
    log(f"[{eng.name}] clauses: universe={len(universe)} entry={len(inv['entry'])} cuts={len(inv)} ({time.time()-t0:.1f}s)")
    rounds = 0
    results = None
    ctxm = mp.get_context("fork")
    while True:
        rounds += 1
        t1 = time.time()
        # a cut point seen for the first time starts from the whole template
        inv_w = {c: ks for c, ks in inv.items()}
        inv_w["*"] = universe      # a cut point seen for the first time starts from the whole template
        _SHARED["inv"] = inv_w
        units = [(factory_mod, factory_name, i, None, tier, []) for i in range(len(eng.entries))]
        results = dynamic_explore(units, jobs, ctxm, lambda r, p: (factory_mod, factory_name, r["idx"], None, tier, p))
        crashed = [r for r in results if r.get("crash")]
        if crashed:
            return {"error": crashed[0]["crash"], "results": results, "inv": inv, "rounds": rounds}
        removed = 0
        for r in results:
            for cut in r.get("cuts", []):
                if cut not in inv:
                    inv[cut] = list(universe)
            for cut, ks in r["violated"].items():
                cur = inv.get(cut)
                if cur is None:
                    cur = inv[cut] = list(universe)
                ks = set(ks)
                before = len(cur)
                inv[cut] = [k for k in cur if k not in ks]
                removed += before - len(inv[cut])
        npaths = sum(r["paths"] for r in results)
        log(f"[{eng.name}] round {rounds}: paths={npaths} removed={removed} entry_clauses={len(inv['entry'])} "
            f"cuts={len(inv)} abstracted_inv_checks={sum(r.get('inv_checks_abstracted', 0) for r in results)} "
            f"({time.time()-t1:.1f}s)")
        if getattr(eng, "cache_file", None) and (infer or os.environ.get("VERIF_SAVE_PARTIAL")):
            save_inv(eng.cache_file + ".partial", inv, {"rounds": rounds, "inductive": removed == 0})
        if os.environ.get("VERIF_DEBUG_ENTRIES"):
            per = {}
            for r in results:
                e = per.setdefault(r["entry"], [0, 0.0, 0])
                e[0] += r["paths"]
                e[1] += r["wall"]
                e[2] += sum(len(v) for v in r["violated"].values())
            log("    per entry (paths, cpu s, violated): " + ", ".join(f"{k}:{v[0]}/{v[1]:.0f}/{v[2]}" for k, v in sorted(per.items(), key=lambda kv: -kv[1][1])[:12]))
        if removed == 0 or rounds >= max_rounds:
            break
    return {"error": None, "results": results, "inv": inv, "rounds": rounds, "universe": len(universe),
            "inductive": removed == 0, "wall": round(time.time() - t0, 1)}


def save_inv(eng_cache_file, inv, meta=None):
    os.makedirs(os.path.dirname(eng_cache_file), exist_ok=True)
    with open(eng_cache_file, "w") as f:
        json.dump({"inv": {c: ks for c, ks in inv.items() if c != "*"}, "meta": meta or {}}, f)



class ClusterTask:
    """runner task: the obligations of one property decided by the composed-machine engine"""
    kind = "cluster"
    counted = True
    own_pool = True

    def __init__(self, name, factory_mod, factory_name, select, replay_driver=None, tiers=None):
        self.name = name
        self.factory_mod = factory_mod
        self.factory_name = factory_name
        self.select = select
        self.replay_driver = replay_driver
        self.tiers = tiers          # None = every tier; otherwise the tiers in which this engine variant is run

    def plan(self, tier):
        return []

    def _engine_results(self, eng, tier, jobs, logs):
        """the engine's result for the current sources.  Several properties select their obligations from the same
        exploration; it is computed once per (content of the repository sources, of this checker, of the cached
        invariant, tier, seed) and kept under out/cluster_cache/ - a run on a tree that differs in any byte of
        those inputs computes it afresh.  VERIF_NO_CLUSTER_CACHE=1 disables the reuse."""
        import hashlib
        import pickle
        from . import source
        h = hashlib.sha256()
        roots = [os.path.join(source.REPO, "src", "wormhole"), os.path.join(ROOT, "pyvc"), os.path.join(ROOT, "props"),
                 os.path.join(ROOT, "replay")]
        for root in roots:
            for dp, dn, fn in sorted(os.walk(root)):
                dn.sort()
                for f in sorted(fn):
                    if f.endswith(".py"):
                        pth = os.path.join(dp, f)
                        h.update(os.path.relpath(pth, root).encode())
                        with open(pth, "rb") as fh:
                            h.update(hashlib.sha256(fh.read()).digest())
        if os.path.exists(eng.cache_file):
            with open(eng.cache_file, "rb") as fh:
                h.update(hashlib.sha256(fh.read()).digest())
        h.update(f"{tier}|{os.environ.get('VERIF_SEED', '0')}|{self.factory_mod}.{self.factory_name}".encode())
        key = h.hexdigest()[:32]
        cdir = os.path.join(os.environ.get("VERIF_OUT_DIR") or os.path.join(ROOT, "out"), "cluster_cache")
        cpath = os.path.join(cdir, key + ".pickle")
        if not os.environ.get("VERIF_NO_CLUSTER_CACHE") and os.path.exists(cpath):
            try:
                with open(cpath, "rb") as fh:
                    r = pickle.load(fh)
                return r, f"reused the exploration computed at {r.get('computed_at')} for byte-identical inputs (key {key})"
            except Exception:
                pass
        r = run_engine(self.factory_mod, self.factory_name, tier, jobs=jobs or 16, log=logs.append)
        r["computed_at"] = time.strftime("%Y-%m-%dT%H:%M:%SZ", time.gmtime())
        r["log"] = list(logs)
        if not r.get("error"):
            try:
                os.makedirs(cdir, exist_ok=True)
                for old_ in os.listdir(cdir):          # keep the directory small: one entry per engine/tier is enough
                    if old_.endswith(".pickle") and time.time() - os.path.getmtime(os.path.join(cdir, old_)) > 6 * 3600:
                        os.remove(os.path.join(cdir, old_))
                with open(cpath + ".tmp", "wb") as fh:
                    pickle.dump(r, fh)
                os.replace(cpath + ".tmp", cpath)
            except Exception:
                pass
        return r, f"computed in this run (key {key})"

    def run_own(self, tier, jobs):
        import importlib
        t0 = time.time()
        logs = []
        if self.tiers is not None and tier not in self.tiers:
            return {"obligations": [], "info": {"target": f"cluster:{self.name}", "skipped": f"runs in tier(s) {self.tiers} only"}}
        eng = getattr(importlib.import_module(self.factory_mod), self.factory_name)()
        r, reused = self._engine_results(eng, tier, jobs, logs)
        from .runner import ob
        if r["error"]:
            return {"obligations": [ob(self.name + ".crash", "crash", detail=r["error"])], "info": {}}
        obs = {}
        oos = []
        npaths = 0
        for res in r["results"]:
            npaths += res["paths"]
            for o in res.get("oos") or []:
                oos.append(f"{res['entry']}: {o}")
            for o in res["obligations"]:
                if not self.select(o["name"]):
                    continue
                cur = obs.get(o["name"])
                if cur is None:
                    cur = obs[o["name"]] = dict(o)
                    cur["failures"] = list(o["failures"])
                    cur["entries"] = [res["entry"]]
                    continue
                cur["entries"].append(res["entry"])
                cur["paths"] += o["paths"]
                cur["secs"] = round(cur["secs"] + o["secs"], 4)
                cur["hashes"] += o["hashes"]
                cur["trivial"] = cur["trivial"] and o["trivial"]
                rank = {"discharged": 0, "unknown": 1, "failed": 2}
                if rank[o["status"]] > rank[cur["status"]]:
                    cur["status"], cur["backend"] = o["status"], o["backend"]
                cur["failures"] += o["failures"]
        out = []
        for o in obs.values():
            m = dict(o["meta"])
            tgt = {"kind": m.get("kind"), "input": m.get("input"), "state": m.get("state"), "machine": m.get("machine"),
                   "exc": m.get("exc"), "function": m.get("function")}
            if m.get("kind") == "post" and "verdict" in o["name"]:
                tgt["kind"] = "verdict"
            if self.replay_driver:
                m["replay"] = {"driver": self.replay_driver, "target": tgt}
            o["meta"] = m
            o["failures"] = o["failures"][:6]
            out.append(o)
        out.append(ob(f"{eng.name}.invariant-inductive", "discharged" if r["inductive"] else "unknown", "z3", 0.0, False,
                      None, {"kind": "inv", "src": f"the inferred invariant ({sum(len(v) for v in r['inv'].values())} clauses over "
                                                  f"{len(r['inv'])} cut points) is re-established by every path of every entry point"},
                      smt_hash="inv"))
        if oos:
            out.append(ob(f"{eng.name}.in-subset", "out-of-reach", detail=sorted(set(oos))[:8]))
        sample = [clause_text(clause_from_key(k)) for k in r["inv"].get("entry", []) if len(clause_from_key(k)) == 2][:25]
        return {"obligations": out,
                "info": {"target": f"cluster:{eng.name}", "paths": npaths, "rounds": r["rounds"], "wall": r.get("wall"),
                         "engine_run": reused,
                         "log": logs[-12:], "entries": [e.name for e in eng.entries],
                         "invariant_clauses": {c: len(ks) for c, ks in r["inv"].items()}, "invariant_sample": sample,
                         "assumptions": []}}
