"""Path context: decisions, path condition, obligations, ghost trace."""
import gc
import threading
import z3
from .values import Namer


# one solver query may not take the machine down: z3 gives up (unknown) beyond this many MB
try:
    z3.set_param("memory_max_size", 6000)
except Exception:      # pragma: no cover
    pass


# Python's cyclic garbage collector runs in whichever thread happens to allocate; if that is the watchdog
# thread, z3 objects are released (Z3_dec_ref) concurrently with the main thread's API calls, which corrupts
# z3's heap (observed: segfaults, "double free", nonsense API errors).  The collector is therefore switched
# off and run explicitly, in the main thread, between paths (Ctx.__init__).
gc.disable()


def guarded_check(solver, timeout_ms):
    """_guarded_check, asked again when the answer is a stale cancellation: z3's own timeout timer of an EARLIER
    query can fire late and cancel whatever runs next in the same context, which then returns `unknown
    (canceled)` at once (observed: a 0.03 s obligation reported unknown; the invariant engine dropping whole
    clause sets).  An `unknown` that says "canceled" long before this query's own budget is used up is not an
    answer to this query."""
    import time as _t
    for attempt in range(4):
        t0 = _t.time()
        r = _guarded_check(solver, timeout_ms)
        if r != z3.unknown:
            return r
        try:
            why = solver.reason_unknown()
        except z3.Z3Exception:
            why = ""
        if "cancel" not in why or (_t.time() - t0) * 1000.0 > 0.5 * timeout_ms:
            return r
        _t.sleep(0.02 * (attempt + 1))
    return r


def _guarded_check(solver, timeout_ms):
    """solver.check() with a hard wall-clock guard: z3's own timeout is not always honoured by the
    sequence solver, so a watchdog thread interrupts the context.  The interrupt is only ever sent
    while the check is running (lock), and after one was sent the context's cancel flag is cleared
    by a throw-away check before anything else touches the context."""
    lock = threading.Lock()
    state = {"running": True, "fired": False}
    zctx = solver.ctx      # the watchdog thread must not hold (and so never be the one to release) a solver or an
    #                        expression: z3 reference counts are not thread safe (see also the gc note below)

    def fire():
        with lock:
            if state["running"]:
                state["fired"] = True
                zctx.interrupt()

    t = threading.Timer(2 * timeout_ms / 1000.0 + 10.0, fire)    # only for a solver that ignores its own timeout
    t.daemon = True
    t.start()
    try:
        try:
            r = solver.check()
        except z3.Z3Exception:
            r = z3.unknown
    finally:
        with lock:
            state["running"] = False
        t.cancel()
    if state["fired"]:
        try:
            z3.Solver(ctx=solver.ctx).check()      # resets the context's cancellation state
        except z3.Z3Exception:
            pass
    return r


def _has_quantifier(e):
    stack, seen = [e], set()
    while stack:
        x = stack.pop()
        if x.get_id() in seen:
            continue
        seen.add(x.get_id())
        if z3.is_quantifier(x):
            return True
        stack.extend(x.children())
    return False


_str_memo = {}


def _mentions_strings(e, hard=False):
    """does the term contain a string/regex term (hard=False), or anything outside quantifier-free
    Bool/Int/Real with uninterpreted functions (hard=True)"""
    k = (e.get_id(), hard)
    if k in _str_memo:
        return _str_memo[k]
    stack, seen, r = [e], set(), False
    easy = (z3.Z3_BOOL_SORT, z3.Z3_INT_SORT, z3.Z3_REAL_SORT)
    while stack:
        x = stack.pop()
        if x.get_id() in seen:
            continue
        seen.add(x.get_id())
        if z3.is_quantifier(x):
            if hard:
                r = True
                break
            stack.append(x.body())
            continue
        so = x.sort()
        if so.kind() in (z3.Z3_SEQ_SORT, z3.Z3_RE_SORT) or (hard and so.kind() not in easy):
            r = True
            break
        stack.extend(x.children())
    _str_memo[k] = r
    return r


_BOOL_OPS = (z3.Z3_OP_AND, z3.Z3_OP_OR, z3.Z3_OP_NOT, z3.Z3_OP_IMPLIES, z3.Z3_OP_XOR, z3.Z3_OP_ITE, z3.Z3_OP_EQ,
             z3.Z3_OP_IFF, z3.Z3_OP_DISTINCT)


def _abstract_strings(e, memo, hard=False):
    """propositional abstraction: every atom that mentions a string/sequence term becomes a fresh Bool (the same
    atom -> the same Bool).  Every model of the original is a model of the abstraction, so `unsat` carries over;
    a spurious `sat` only makes the caller drop clauses it could have kept."""
    k = e.get_id()
    if k in memo:
        return memo[k]
    if not _mentions_strings(e, hard):
        r = e
    elif z3.is_app(e) and z3.is_bool(e) and e.decl().kind() in _BOOL_OPS and \
            all(z3.is_bool(c) for c in e.children()):
        r = e.decl()(*[_abstract_strings(c, memo, hard) for c in e.children()])
    elif z3.is_bool(e):
        r = z3.Bool(f"abs!{k}")
    else:
        r = e
    memo[k] = r
    return r


class PathEnd(Exception):
    """this path ends here (infeasible, or cut at a loop head after the invariant was re-proved)"""


class VC:
    __slots__ = ("name", "pc", "goal", "meta", "kind", "verdict")

    def __init__(self, name, pc, goal, meta=None, kind="prove"):
        self.name = name
        self.pc = pc
        self.goal = goal
        self.meta = meta or {}
        self.kind = kind
        self.verdict = None


class Ctx:
    def __init__(self, decisions=(), branch_timeout_ms=1500, check_feasibility=True):
        if threading.current_thread() is threading.main_thread():
            gc.collect()
        self.decisions = list(decisions)
        self.pos = 0
        self.alts = []
        self.pc = []
        self.solver = z3.Solver()
        self.solver.set("timeout", branch_timeout_ms)
        self.branch_timeout_ms = branch_timeout_ms
        self.check_feasibility = check_feasibility
        self.vcs = []
        self.trace = []
        self.namer = Namer()
        self.inputs = {}
        self.notes = []
        self.nbranch = 0
        self.covered = set()
        self.imprecise = []       # over-approximations made on this path (a refutation may then be spurious)
        self.choice_pc = set()    # indices into self.pc of the conditions assumed by choose()/branch() (read by xcheck.py)

    def note_bounded(self, what):
        self.bounded = getattr(self, "bounded", [])
        if what not in self.bounded:
            self.bounded.append(what)

    def note_imprecise(self, what):
        if what not in self.imprecise:
            self.imprecise.append(what)

    # -- assumptions
    def assume(self, z):
        if isinstance(z, bool):
            z = z3.BoolVal(z)
        z = z3.simplify(z)
        if z3.is_false(z):
            raise PathEnd("assume false")
        if z3.is_true(z):
            return
        self.pc.append(z)
        if getattr(self, "qf_feasibility", False) and _has_quantifier(z):
            # opt-in (Contract.qf_feasibility): quantified hypotheses are kept for the obligations but not used
            # to prune branches (pruning with fewer hypotheses only keeps more paths)
            return
        self.solver.add(z)

    def _rebuild_solver(self):
        """after a z3 exception (a late watchdog interrupt, an internal limit) the incremental solver
        may be unusable: start a fresh one with the same path condition"""
        self.solver = z3.Solver()
        self.solver.set("timeout", self.branch_timeout_ms)
        for p in self.pc:
            self.solver.add(p)

    def _feasible(self, cond):
        if not self.check_feasibility:
            return True
        tmo = self.branch_timeout_ms
        if getattr(self, "abs_first", False):
            # ask the propositional abstraction first (string atoms -> fresh Bools): its `unsat` is sound and
            # immediate; the full query then gets a short budget (it mostly times out on string-heavy paths)
            a = self._abs_solver()
            a.push()
            try:
                a.add(_abstract_strings(cond, self._absmemo))
                ra = guarded_check(a, 2000)
            finally:
                a.pop()
            if ra == z3.unsat:
                return False
            tmo = getattr(self, "real_timeout_ms", self.branch_timeout_ms)
        import time as _t
        t0 = _t.time()
        try:
            self.solver.push()
            try:
                self.solver.add(cond)
                self.solver.set("timeout", tmo)
                r = guarded_check(self.solver, tmo)
            finally:
                self.solver.pop()
        except z3.Z3Exception:
            self._rebuild_solver()
            return True          # undecided: keep the branch (sound)
        self.feas_stats = getattr(self, "feas_stats", [0, 0.0, 0])
        self.feas_stats[0] += 1
        self.feas_stats[1] += _t.time() - t0
        self.feas_stats[2] += (r == z3.unknown)
        return r != z3.unsat

    def _abs_solver(self):
        a = getattr(self, "_asolver", None)
        if a is None:
            a = self._asolver = z3.Solver()
            self._absmemo = {}
            self._abs_n = 0
        while self._abs_n < len(self.pc):
            a.add(_abstract_strings(self.pc[self._abs_n], self._absmemo))
            self._abs_n += 1
        return a

    # -- choices
    def choose(self, conds, label=""):
        """pick one option; conds[i] is the z3 condition under which option i is possible
        (assumed when picked).  Explores all feasible options across re-executions."""
        conds = [z3.simplify(c if z3.is_expr(c) else z3.BoolVal(bool(c))) for c in conds]
        live = [i for i, c in enumerate(conds) if not z3.is_false(c)]
        if len(live) == 0:
            raise PathEnd("no option")
        if len(live) == 1 and z3.is_true(conds[live[0]]):
            return live[0]
        self.nbranch += 1
        if self.pos < len(self.decisions):
            idx = self.decisions[self.pos]
            if idx == "END":
                # replay of a path that exploration found to end here (no feasible option)
                raise PathEnd("infeasible")
            self.pos += 1
        else:
            feas = [i for i in live if self._feasible(conds[i])]
            if not feas:
                raise PathEnd("infeasible")
            idx = feas[0]
            prefix = self.decisions[:self.pos]
            for j in feas[1:]:
                self.alts.append(prefix + [j])
            self.decisions.append(idx)
            self.pos += 1
        n0 = len(self.pc)
        self.assume(conds[idx])
        if len(self.pc) > n0:
            self.choice_pc.add(n0)
        return idx

    def branch(self, z, label=""):
        if isinstance(z, bool):
            return z
        z = z3.simplify(z)
        if z3.is_true(z):
            return True
        if z3.is_false(z):
            return False
        return self.choose([z, z3.Not(z)], label) == 0

    # -- obligations
    def prove(self, z, name, meta=None):
        if isinstance(z, bool):
            z = z3.BoolVal(z)
        if self.imprecise:
            meta = dict(meta or {})
            meta["imprecise"] = list(self.imprecise)
        if getattr(self, "bounded", None):
            meta = dict(meta or {})
            meta["bounded"] = list(self.bounded)
        vc = VC(name, list(self.pc), z, meta)
        self.vcs.append(vc)
        if getattr(self, "eager", False):
            # decide it now with the path's incremental solver (its assertions are exactly the path
            # condition at this point); anything but a definite answer is left to the full pipeline
            import time as _t
            from .solve import Verdict
            t0 = _t.time()
            g = z3.simplify(z)
            if z3.is_true(g):
                vc.verdict = Verdict(name, "discharged", "simplifier", 0.0, meta=vc.meta, trivial=True, smt_hash="true")
                return
            self.solver.push()
            try:
                self.solver.add(z3.Not(g))
                r = guarded_check(self.solver, self.branch_timeout_ms)
                h = str(hash((name, str(g)[:200])))
                if r == z3.unsat:
                    vc.verdict = Verdict(name, "discharged", "z3", _t.time() - t0, meta=vc.meta, smt_hash=h)
                elif r == z3.sat:
                    m = self.solver.model()
                    if z3.is_false(z3.simplify(m.eval(g, model_completion=True))):
                        vc.verdict = Verdict(name, "failed", "z3", _t.time() - t0, model=m, meta=vc.meta, smt_hash=h)
            finally:
                self.solver.pop()

    def lemma(self, z, name):
        """a fact the solvers need spelled out: proved as an obligation of its own, then used"""
        self.prove(z, name, {"kind": "lemma"})
        self.assume(z)

    def cover(self, name):
        self.covered.add(name)

    def event(self, name, *args, **kw):
        self.trace.append((name, args, kw))
