"""Translation of the literal regular expressions that occur in the repository into z3
regular expressions, with Python's semantics for ^, $ (also before a final newline),
\\d (all Unicode decimal digits for str patterns), '.', classes and greedy-agnostic
matching (only match / no-match is modelled; groups are not)."""
import sys
import unicodedata
import z3

_ND = None


def nd_ranges():
    global _ND
    if _ND is None:
        out = []
        start = None
        prev = None
        for cp in range(sys.maxunicode + 1):
            if unicodedata.category(chr(cp)) == "Nd":
                if start is None:
                    start = cp
                prev = cp
            else:
                if start is not None:
                    out.append((start, prev))
                    start = None
        if start is not None:
            out.append((start, prev))
        _ND = out
    return _ND


def _chr(cp):
    return z3.StringVal(chr(cp)) if cp < 0x110000 else None


def _range(a, b):
    if a == b:
        return z3.Re(z3.StringVal(chr(a)))
    return z3.Range(chr(a), chr(b))


def digit_re(unicode_digits=True):
    if not unicode_digits:
        return z3.Range("0", "9")
    rs = [_range(a, b) for a, b in nd_ranges()]
    return z3.Union(*rs)


ANYCHAR = None


def anychar(dotall=False):
    full = z3.AllChar(z3.ReSort(z3.StringSort()))
    if dotall:
        return full
    return z3.Diff(full, z3.Re(z3.StringVal("\n"))) if hasattr(z3, "Diff") else z3.Intersect(full, z3.Complement(z3.Re(z3.StringVal("\n"))))


class RegexUnsupported(Exception):
    pass


class _P:
    def __init__(self, pat, unicode_digits):
        self.p = pat
        self.i = 0
        self.ud = unicode_digits

    def peek(self):
        return self.p[self.i] if self.i < len(self.p) else None

    def alt(self):
        branches = [self.seq()]
        while self.peek() == "|":
            self.i += 1
            branches.append(self.seq())
        return branches[0] if len(branches) == 1 else z3.Union(*branches)

    def seq(self):
        items = []
        while self.peek() is not None and self.peek() not in "|)":
            items.append(self.rep())
        if not items:
            return z3.Re(z3.StringVal(""))
        return items[0] if len(items) == 1 else z3.Concat(*items)

    def rep(self):
        a = self.atom()
        while self.peek() is not None and self.peek() in "+*?":
            c = self.peek()
            self.i += 1
            if self.peek() == "?":   # non-greedy: same language
                self.i += 1
            a = z3.Plus(a) if c == "+" else z3.Star(a) if c == "*" else z3.Option(a)
        if self.peek() == "{":
            raise RegexUnsupported("{m,n}")
        return a

    def atom(self):
        c = self.peek()
        self.i += 1
        if c == "(":
            if self.p[self.i:self.i + 2] == "?:":
                self.i += 2
            elif self.peek() == "?":
                raise RegexUnsupported("(?")
            r = self.alt()
            if self.peek() != ")":
                raise RegexUnsupported("unbalanced")
            self.i += 1
            return r
        if c == "[":
            return self.cls()
        if c == ".":
            return anychar()
        if c == "\\":
            return self.esc()
        if c in "^$":
            raise RegexUnsupported("inner anchor")
        return z3.Re(z3.StringVal(c))

    def esc(self, in_class=False):
        c = self.peek()
        self.i += 1
        if c == "d":
            return digit_re(self.ud)
        if c in "wsWSDbB":
            raise RegexUnsupported("\\" + c)
        if c == "n":
            return z3.Re(z3.StringVal("\n"))
        if c == "t":
            return z3.Re(z3.StringVal("\t"))
        return z3.Re(z3.StringVal(c))

    def cls(self):
        neg = False
        if self.peek() == "^":
            neg = True
            self.i += 1
        parts = []
        first = True
        while self.peek() is not None and (self.peek() != "]" or first):
            first = False
            c = self.peek()
            self.i += 1
            if c == "\\":
                parts.append(self.esc(True))
                continue
            if self.peek() == "-" and self.i + 1 < len(self.p) and self.p[self.i + 1] != "]":
                hi = self.p[self.i + 1]
                self.i += 2
                parts.append(z3.Range(c, hi))
            else:
                parts.append(z3.Re(z3.StringVal(c)))
        if self.peek() != "]":
            raise RegexUnsupported("unterminated class")
        self.i += 1
        r = parts[0] if len(parts) == 1 else z3.Union(*parts)
        if neg:
            r = z3.Intersect(z3.AllChar(z3.ReSort(z3.StringSort())), z3.Complement(r))
        return r


def compile_search(pat, mode="search", unicode_digits=True):
    """z3 regex R such that re.<mode>(pat, s) matches  <=>  s in R"""
    start = pat.startswith("^")
    if start:
        pat = pat[1:]
    end = pat.endswith("$") and not pat.endswith("\\$")
    if end:
        pat = pat[:-1]
    endZ = pat.endswith("\\Z")
    if endZ:
        pat = pat[:-2]
    p = _P(pat, unicode_digits)
    body = p.alt()
    if p.i != len(pat):
        raise RegexUnsupported("trailing " + pat[p.i:])
    full = z3.Full(z3.ReSort(z3.StringSort()))
    parts = []
    if mode == "search" and not start:
        parts.append(full)
    parts.append(body)
    if end:
        parts.append(z3.Option(z3.Re(z3.StringVal("\n"))))
    elif endZ or mode == "fullmatch":
        pass
    else:
        parts.append(full)
    return parts[0] if len(parts) == 1 else z3.Concat(*parts)


def min_length(pat):
    """a lower bound on the length of any string the pattern matches (anchors ignored; conservative)"""
    n = 0
    i = 0
    depth = 0
    while i < len(pat):
        c = pat[i]
        nxt = pat[i + 1] if i + 1 < len(pat) else ""
        if c in "^$":
            i += 1
            continue
        if c == "(":
            depth += 1
            i += 1
            continue
        if c == ")":
            depth -= 1
            i += 1
            if nxt and nxt in "*?":
                return 0 if n == 0 else n      # optional group: keep it simple, do not count further
            continue
        if c == "|":
            return 0
        atom_len = 1
        if c == "\\":
            i += 2
        elif c == "[":
            j = pat.index("]", i + 1)
            i = j + 1
        else:
            i += 1
        q = pat[i] if i < len(pat) else ""
        if q in ("*", "?"):
            atom_len = 0
            i += 1
        elif q == "+":
            i += 1
        if depth == 0 or True:
            n += atom_len
    return n
