"""Symbolic value model for pyvc (runs under python3-vt: z3-solver 5.x).

Every Python value that the symbolic executor manipulates is one of the wrapper
classes below.  The *kind* of a value (int / str / bytes / list / object ...) is
always known concretely on a path; only the *content* is symbolic.  Values whose
kind is not known (JSON from the peer, optional fields) are VJson / VOpt and are
split into kinds by path forking when they are used.
"""
import itertools
import z3

# ----------------------------------------------------------------------------
# sorts

StringS = z3.StringSort()
IntS = z3.IntSort()
BoolS = z3.BoolSort()
RealS = z3.RealSort()

_opaque_sorts = {}


def opaque_sort(name):
    if name not in _opaque_sorts:
        _opaque_sorts[name] = z3.DeclareSort("O_" + name)
    return _opaque_sorts[name]


_tuple_sorts = {}
NT_DEFS = {}      # namedtuple class name -> [(field, type)], registered by the property modules


def _build_json():
    Jr = z3.DatatypeSort("J")      # forward references for the nested Seq / Array
    OJr = z3.DatatypeSort("OJ")
    J = z3.Datatype("J")
    OJ = z3.Datatype("OJ")
    J.declare("jnull")
    J.declare("jbool", ("b", BoolS))
    J.declare("jint", ("i", IntS))
    J.declare("jreal", ("r", RealS))
    J.declare("jstr", ("s", StringS))
    J.declare("jlist", ("l", z3.SeqSort(Jr)))
    J.declare("jdict", ("d", z3.ArraySort(StringS, OJr)))
    OJ.declare("absent")
    OJ.declare("present", ("v", Jr))
    return z3.CreateDatatypes(J, OJ)


J, OJ = _build_json()


class OutOfSubset(Exception):
    """The real code uses something the encoding does not model: the function is
    reported out of reach (never proved, never a violation)."""


# ----------------------------------------------------------------------------
# type descriptors (parsed from contract strings)

class T:
    def __init__(self, kind, args=(), name=None):
        self.kind = kind
        self.args = tuple(args)
        self.name = name

    def __repr__(self):
        if self.name:
            return f"{self.kind}[{self.name}]"
        if self.args:
            return f"{self.kind}[{','.join(map(repr, self.args))}]"
        return self.kind

    def __eq__(self, o):
        return isinstance(o, T) and repr(self) == repr(o)

    def __hash__(self):
        return hash(repr(self))


def parse_type(s):
    if isinstance(s, T):
        return s
    s = s.strip()
    if "[" not in s:
        return T(s)
    head, rest = s.split("[", 1)
    assert rest.endswith("]"), s
    rest = rest[:-1]
    if head in ("opaque", "obj", "enum", "nt"):
        return T(head, name=rest.strip())
    parts, depth, cur = [], 0, ""
    for ch in rest:
        if ch == "[":
            depth += 1
        if ch == "]":
            depth -= 1
        if ch == "," and depth == 0:
            parts.append(cur)
            cur = ""
        else:
            cur += ch
    parts.append(cur)
    return T(head, [parse_type(p) for p in parts])


def sort_of(t):
    """z3 sort used when a value of type t is stored inside a z3 container."""
    t = parse_type(t)
    k = t.kind
    if k == "int":
        return IntS
    if k == "bool":
        return BoolS
    if k in ("float", "real"):
        return RealS
    if k in ("str", "bytes"):
        return StringS
    if k == "json":
        return J
    if k == "opaque":
        return opaque_sort(t.name)
    if k in ("seq", "list", "deque"):
        return z3.SeqSort(sort_of(t.args[0]))
    if k == "set":
        return z3.ArraySort(sort_of(t.args[0]), BoolS)
    if k == "tuple":
        key = repr(t)
        if key not in _tuple_sorts:
            dt = z3.Datatype("Tup%d" % len(_tuple_sorts))
            dt.declare("mk", *[("f%d" % i, sort_of(a)) for i, a in enumerate(t.args)])
            _tuple_sorts[key] = dt.create()
        return _tuple_sorts[key]
    if k == "opt":
        key = repr(t)
        if key not in _tuple_sorts:
            dt = z3.Datatype("Opt%d" % len(_tuple_sorts))
            dt.declare("none")
            dt.declare("some", ("v", sort_of(t.args[0])))
            _tuple_sorts[key] = dt.create()
        return _tuple_sorts[key]
    if k == "nt":
        key = repr(t)
        if key not in _tuple_sorts:
            fields = NT_DEFS[t.name]
            dt = z3.Datatype("NT_" + t.name)
            dt.declare("mk_" + t.name, *[(f"{t.name}_{fn}", sort_of(ft)) for fn, ft in fields])
            _tuple_sorts[key] = dt.create()
        return _tuple_sorts[key]
    if k == "union":
        key = repr(t)
        if key not in _tuple_sorts:
            dt = z3.Datatype("U%d" % len(_tuple_sorts))
            for i, a in enumerate(t.args):
                if a.kind == "none":
                    dt.declare(f"u{len(_tuple_sorts)}_none")
                else:
                    dt.declare(f"u{len(_tuple_sorts)}_alt{i}", (f"u{len(_tuple_sorts)}_v{i}", sort_of(a)))
            _tuple_sorts[key] = dt.create()
        return _tuple_sorts[key]
    raise OutOfSubset(f"no z3 sort for type {t!r}")


# ----------------------------------------------------------------------------
# values

class V:
    pass


class VNoneT(V):
    def __repr__(self):
        return "None"


NONE = VNoneT()


class VInt(V):
    def __init__(self, z):
        self.z = z if z3.is_expr(z) else z3.IntVal(z)

    def __repr__(self):
        return f"VInt({self.z})"


class VBool(V):
    def __init__(self, z):
        self.z = z if z3.is_expr(z) else z3.BoolVal(bool(z))

    def __repr__(self):
        return f"VBool({self.z})"


class VReal(V):
    def __init__(self, z):
        self.z = z if z3.is_expr(z) else z3.RealVal(z)

    def __repr__(self):
        return f"VReal({self.z})"


class VStr(V):
    """str or bytes; bytes are strings over code points 0..255"""

    def __init__(self, z, kind="str"):
        if isinstance(z, (bytes, bytearray)):
            z = z3.StringVal("".join(chr(b) for b in z))
            kind = "bytes"
        elif isinstance(z, str):
            z = z3.StringVal(z)
        self.z = z
        self.kind = kind

    def __repr__(self):
        return f"V{self.kind}({self.z})"


class VTuple(V):
    def __init__(self, items, ntname=None, ntfields=None):
        self.items = list(items)
        self.ntname = ntname      # namedtuple class name, if any
        self.ntfields = ntfields

    def __repr__(self):
        return f"VTuple{self.ntname or ''}({self.items})"


class VList(V):
    """A list whose length is concrete on this path (mutable, has identity)."""

    def __init__(self, items):
        self.items = list(items)

    def __repr__(self):
        return f"VList({self.items})"


class VSeq(V):
    """A list/deque of symbolic length: holder of a z3 Seq (mutable, identity)."""

    def __init__(self, z, elem):
        self.z = z
        self.elem = parse_type(elem)

    def __repr__(self):
        return f"VSeq[{self.elem}]({self.z})"


class VSet(V):
    def __init__(self, z, elem):
        self.z = z
        self.elem = parse_type(elem) if elem is not None else None

    def __repr__(self):
        return f"VSet[{self.elem}]({self.z})"


class VDict(V):
    """dict with concrete key set on this path (keys are python constants)"""

    def __init__(self, d=None):
        self.d = dict(d or {})

    def __repr__(self):
        return f"VDict({self.d})"


class VMap(V):
    """dict with symbolic key set: present: K->Bool, val: K->V"""

    def __init__(self, present, val, kt, vt):
        self.present = present
        self.val = val
        self.kt = parse_type(kt)
        self.vt = parse_type(vt)

    def __repr__(self):
        return f"VMap[{self.kt},{self.vt}]"


class VObj(V):
    _ids = itertools.count()

    def __init__(self, cls, fields=None):
        self.cls = cls            # class name (string)
        self.fields = dict(fields or {})
        self.oid = next(VObj._ids)

    def __repr__(self):
        return f"VObj<{self.cls}#{self.oid}>"


class VOpaque(V):
    def __init__(self, z, name):
        self.z = z
        self.name = name

    def __repr__(self):
        return f"VOpaque[{self.name}]({self.z})"


class VJson(V):
    def __init__(self, z):
        self.z = z

    def __repr__(self):
        return f"VJson({self.z})"


class VOpt(V):
    """None (when isnone) or inner"""

    def __init__(self, isnone, inner):
        self.isnone = isnone
        self.inner = inner

    def __repr__(self):
        return f"VOpt({self.isnone}, {self.inner})"


class VUnion(V):
    """one of several kinds, decided by path forking when used: alts = [(cond, value)]"""

    def __init__(self, alts):
        self.alts = alts

    def __repr__(self):
        return f"VUnion({self.alts})"


class VFunc(V):
    def __init__(self, fdef, bound=None, closure=None, name=None):
        self.fdef = fdef
        self.bound = bound
        self.closure = closure
        self.name = name

    def __repr__(self):
        return f"VFunc({self.name or getattr(self.fdef, 'qualname', '?')})"


class VClass(V):
    def __init__(self, name, cdef=None):
        self.name = name
        self.cdef = cdef

    def __repr__(self):
        return f"VClass({self.name})"


class VExt(V):
    """external (non-repository) module / function / constant, by dotted name"""

    def __init__(self, name):
        self.name = name

    def __repr__(self):
        return f"VExt({self.name})"


class VBoundExt(V):
    """method of a builtin value: (receiver, method name)"""

    def __init__(self, recv, meth):
        self.recv = recv
        self.meth = meth

    def __repr__(self):
        return f"VBoundExt({self.recv}.{self.meth})"


class VSplit(V):
    """result of s.split(sep) that has not been indexed yet"""

    def __init__(self, s, sep, kind):
        self.s = s
        self.sep = sep
        self.kind = kind


class VRange(V):
    def __init__(self, lo, hi):
        self.lo = lo
        self.hi = hi


# ----------------------------------------------------------------------------
# conversion to / from z3 terms of a declared type

def to_z3(v, t):
    t = parse_type(t)
    k = t.kind
    if k == "int" and isinstance(v, VInt):
        return v.z
    if k == "int" and isinstance(v, VBool):
        return z3.If(v.z, 1, 0)
    if k == "bool" and isinstance(v, VBool):
        return v.z
    if k in ("float", "real"):
        if isinstance(v, VReal):
            return v.z
        if isinstance(v, VInt):
            return z3.ToReal(v.z)
    if k in ("str", "bytes") and isinstance(v, VStr):
        return v.z
    if k == "json":
        return to_json(v)
    if k == "opaque" and isinstance(v, VOpaque) and v.name == t.name:
        return v.z
    if k == "opaque" and isinstance(v, VObj) and isinstance(v.fields.get("__id"), VOpaque) and v.fields["__id"].name == t.name:
        # a collaborator object with a ghost identity: containers hold the identity
        return v.fields["__id"].z
    if k in ("seq", "list", "deque"):
        if isinstance(v, VSeq):
            return v.z
        if isinstance(v, (VList, VTuple)):
            es = sort_of(t.args[0])
            if not v.items:
                return z3.Empty(z3.SeqSort(es))
            units = [z3.Unit(to_z3(x, t.args[0])) for x in v.items]
            return units[0] if len(units) == 1 else z3.Concat(*units)
    if k == "set" and isinstance(v, VSet):
        if v.z is None:      # set() not yet typed by an add(): the empty set of the expected element type
            return z3.K(sort_of(t.args[0]), z3.BoolVal(False))
        return v.z
    if k == "tuple" and isinstance(v, VTuple):
        s = sort_of(t)
        return s.constructor(0)(*[to_z3(x, a) for x, a in zip(v.items, t.args)])
    if k == "nt" and isinstance(v, VTuple) and v.ntname == t.name:
        s = sort_of(t)
        return s.constructor(0)(*[to_z3(x, ft) for x, (fn, ft) in zip(v.items, NT_DEFS[t.name])])
    if k == "union":
        s = sort_of(t)
        if isinstance(v, VOpt):
            return z3.If(v.isnone, to_z3(NONE, t), to_z3(v.inner, t))
        if isinstance(v, VUnion):
            r = to_z3(v.alts[-1][1], t)
            for c, x in reversed(v.alts[:-1]):
                r = z3.If(c, to_z3(x, t), r)
            return r
        for i, a in enumerate(t.args):
            if a.kind == "none":
                if v is NONE:
                    return s.constructor(i)()
                continue
            try:
                return s.constructor(i)(to_z3(v, a))
            except OutOfSubset:
                continue
    if k == "opt":
        s = sort_of(t)
        if v is NONE:
            return s.constructor(0)()
        if isinstance(v, VOpt):
            return z3.If(v.isnone, s.constructor(0)(), s.constructor(1)(to_z3(v.inner, t.args[0])))
        return s.constructor(1)(to_z3(v, t.args[0]))
    raise OutOfSubset(f"cannot store {v!r} as {t!r}")


def from_z3(z, t):
    t = parse_type(t)
    k = t.kind
    if k == "int":
        return VInt(z)
    if k == "bool":
        return VBool(z)
    if k in ("float", "real"):
        return VReal(z)
    if k in ("str", "bytes"):
        return VStr(z, k)
    if k == "json":
        return VJson(z)
    if k == "opaque":
        return VOpaque(z, t.name)
    if k in ("seq", "list", "deque"):
        return VSeq(z, t.args[0])
    if k == "set":
        return VSet(z, t.args[0])
    if k == "tuple":
        s = sort_of(t)
        return VTuple([from_z3(s.accessor(0, i)(z), a) for i, a in enumerate(t.args)])
    if k == "opt":
        s = sort_of(t)
        return VOpt(s.recognizer(0)(z), from_z3(s.accessor(1, 0)(z), t.args[0]))
    if k == "nt":
        s = sort_of(t)
        fields = NT_DEFS[t.name]
        return VTuple([from_z3(s.accessor(0, i)(z), ft) for i, (fn, ft) in enumerate(fields)], t.name,
                      [fn for fn, ft in fields])
    if k == "union":
        s = sort_of(t)
        alts = []
        for i, a in enumerate(t.args):
            if a.kind == "none":
                alts.append((s.recognizer(i)(z), NONE))
            else:
                alts.append((s.recognizer(i)(z), from_z3(s.accessor(i, 0)(z), a)))
        return VUnion(alts)
    raise OutOfSubset(f"cannot read {t!r} from z3")


def to_json(v):
    if isinstance(v, VJson):
        return v.z
    if v is NONE:
        return J.jnull
    if isinstance(v, VBool):
        return J.jbool(v.z)
    if isinstance(v, VInt):
        return J.jint(v.z)
    if isinstance(v, VReal):
        return J.jreal(v.z)
    if isinstance(v, VStr) and v.kind == "str":
        return J.jstr(v.z)
    if isinstance(v, (VList, VTuple)):
        if not v.items:
            return J.jlist(z3.Empty(z3.SeqSort(J)))
        units = [z3.Unit(to_json(x)) for x in v.items]
        return J.jlist(units[0] if len(units) == 1 else z3.Concat(*units))
    if isinstance(v, VSeq) and v.elem.kind == "json":
        return J.jlist(v.z)
    if isinstance(v, VDict):
        a = z3.K(StringS, OJ.absent)
        for key, val in v.d.items():
            if not isinstance(key, str):
                raise OutOfSubset("non-str dict key as JSON")
            a = z3.Store(a, z3.StringVal(key), OJ.present(to_json(val)))
        return J.jdict(a)
    if isinstance(v, VOpt):
        return z3.If(v.isnone, J.jnull, to_json(v.inner))
    raise OutOfSubset(f"cannot view {v!r} as JSON")


class Namer:
    """deterministic fresh names (same names on re-execution of a path prefix)"""

    def __init__(self):
        self.n = 0

    def __call__(self, base):
        self.n += 1
        return f"{base}!{self.n}"


def fresh(t, name, namer, objfactory=None):
    """a fresh unconstrained symbolic value of type t.  Returns (value, [constraints])"""
    if isinstance(t, str) and t.startswith("enum:"):
        z = z3.Int(namer(name))
        return VInt(z), [z >= 0, z < len(t[5:].split(","))]
    t = parse_type(t)
    k = t.kind
    cons = []
    if k == "none":
        return NONE, cons
    if k == "int":
        return VInt(z3.Int(namer(name))), cons
    if k == "nat":
        z = z3.Int(namer(name))
        return VInt(z), [z >= 0]
    if k == "bool":
        return VBool(z3.Bool(namer(name))), cons
    if k in ("float", "real"):
        return VReal(z3.Real(namer(name))), cons
    if k == "str":
        return VStr(z3.String(namer(name)), "str"), cons
    if k == "bytes":
        # over-approximation: arbitrary code points; contracts that need 0..255
        # say so with is_bytes(x) in requires
        return VStr(z3.String(namer(name)), "bytes"), cons
    if k == "json":
        return VJson(z3.Const(namer(name), J)), cons
    if k == "opaque":
        return VOpaque(z3.Const(namer(name), opaque_sort(t.name)), t.name), cons
    if k in ("seq", "list", "deque"):
        z = z3.Const(namer(name), z3.SeqSort(sort_of(t.args[0])))
        return VSeq(z, t.args[0]), cons
    if k == "set":
        z = z3.Const(namer(name), z3.ArraySort(sort_of(t.args[0]), BoolS))
        return VSet(z, t.args[0]), cons
    if k in ("dict", "defaultdict"):
        p = z3.Const(namer(name + "_p"), z3.ArraySort(sort_of(t.args[0]), BoolS))
        v = z3.Const(namer(name + "_v"), z3.ArraySort(sort_of(t.args[0]), sort_of(t.args[1])))
        m = VMap(p, v, t.args[0], t.args[1])
        if k == "defaultdict":
            m.default_empty = True     # collections.defaultdict(deque/list): see Interp.getitem
        return m, cons
    if k == "opt":
        inner, c2 = fresh(t.args[0], name, namer, objfactory)
        return VOpt(z3.Bool(namer(name + "_isnone")), inner), c2
    if k == "tuple":
        items = []
        for i, a in enumerate(t.args):
            v, c2 = fresh(a, f"{name}_{i}", namer, objfactory)
            items.append(v)
            cons += c2
        return VTuple(items), cons
    if k in ("nt", "union"):
        z = z3.Const(namer(name), sort_of(t))
        return from_z3(z, t), cons
    if k == "obj":
        if objfactory is None:
            raise OutOfSubset(f"no object factory for {t!r}")
        return objfactory(t.name, name)
    if k == "callable":
        return VOpaque(z3.Const(namer(name), opaque_sort("callable")), "callable"), cons
    raise OutOfSubset(f"cannot create fresh {t!r}")


_BYTES_RE = None


def is_bytes(z):
    global _BYTES_RE
    if _BYTES_RE is None:
        _BYTES_RE = z3.Star(z3.Range(chr(0), chr(255)))
    return z3.InRe(z, _BYTES_RE)
