"""Path-witness cross-check of the symbolic interpreter against CPython (thorough tier only; DESIGN 4.3).

For every explored path of a function under contract that ends in `return` or in a raised exception, and
that the generic native driver can execute, the solver is asked for a model of the path condition; the
inputs are concretised exactly as for counterexamples (solve.concretize over ctx.inputs); the REAL function
is run under /venv/bin/python on those inputs (replay/driver.py --xcheck, one subprocess per task); what
CPython did is compared with what the symbolic path says:
  (a) the outcome kind (normal return / raised) and the exception class,
  (b) the returned value and the final values of the declared fields of self, where these are of simple
      type and their value under the model does not depend on anything the model interprets arbitrarily.
A disagreement means the CHECKER is wrong (interpreter / library model), never the repository.

A path is skipped (and counted, by reason) when its behaviour is not a function of its inputs alone:
boundary / contract-applied calls, Automat inputs, generators, havocked state (loop cuts), uninterpreted
functions or auxiliary symbols in the path condition (unless the solver shows that the inputs determine
the path and the values: `determined`), inputs the driver cannot build faithfully.
"""
import json
import os
import subprocess
import tempfile

import z3

from .values import *      # noqa
from .values import J, is_bytes
from . import solve
from .ctx import guarded_check

ROOT = os.path.dirname(os.path.dirname(os.path.abspath(__file__)))
VENV_PY = "/venv/bin/python"
MODEL_TIMEOUT_MS = 5000
DET_TIMEOUT_MS = 3000
EXTRA_WITNESSES = 2     # further models per path, with longer strings / other integers
EXTRA_TIMEOUT_MS = 2000
MAX_SEQ = 64            # solve.concretize reads at most this many elements of a symbolic sequence


class NotSimple(Exception):
    """the value is not of a type the comparison covers"""


class Unfaithful(Exception):
    """the model value cannot be rendered faithfully as a Python value"""


# ------------------------------------------------------------------ walking values / terms
def zexprs(v, out, seen=None, depth=0):
    """all z3 terms a symbolic value is made of"""
    if seen is None:
        seen = set()
    if v is None or v is NONE or depth > 8:
        return out
    if isinstance(v, (VInt, VBool, VReal, VStr, VSeq, VJson, VOpaque)):
        out.append(v.z)
    elif isinstance(v, VSet):
        if v.z is not None:
            out.append(v.z)
    elif isinstance(v, VMap):
        out.extend([v.present, v.val])
    elif isinstance(v, VOpt):
        out.append(v.isnone)
        zexprs(v.inner, out, seen, depth + 1)
    elif isinstance(v, VUnion):
        for c, x in v.alts:
            out.append(c)
            zexprs(x, out, seen, depth + 1)
    elif isinstance(v, (VTuple, VList)):
        for x in v.items:
            zexprs(x, out, seen, depth + 1)
    elif isinstance(v, VDict):
        for x in v.d.values():
            zexprs(x, out, seen, depth + 1)
    elif isinstance(v, VObj):
        if id(v) in seen:
            return out
        seen.add(id(v))
        for x in v.fields.values():
            zexprs(x, out, seen, depth + 1)
    elif hasattr(v, "z") and z3.is_expr(getattr(v, "z")):
        out.append(v.z)
    return out


def symbols(exprs, limit=200000):
    """(uninterpreted constants by name, uninterpreted function names of arity > 0) occurring in the terms"""
    consts, ufs = {}, set()
    stack, seen, n = [e for e in exprs if z3.is_expr(e)], set(), 0
    while stack and n < limit:
        e = stack.pop()
        n += 1
        if e.get_id() in seen:
            continue
        seen.add(e.get_id())
        if z3.is_quantifier(e):
            stack.append(e.body())
            continue
        if z3.is_app(e):
            d = e.decl()
            if d.kind() == z3.Z3_OP_UNINTERPRETED:
                if e.num_args() == 0:
                    consts[d.name()] = e
                else:
                    ufs.add(d.name())
            stack.extend(e.children())
    return consts, ufs


# ------------------------------------------------------------------ symbolic value -> canonical JSON value
def _canon_json(p):
    """a plain Python JSON value (from solve.json_value) in the canonical form the driver prints"""
    if p is None or isinstance(p, (bool, int, str)):
        return p
    if isinstance(p, float):
        return {"__float__": p}
    if isinstance(p, list):
        return [_canon_json(x) for x in p]
    if isinstance(p, dict):
        if "__unreadable__" in p or "__every_other_key__" in p:
            raise Unfaithful("json dict model is not a finite table")
        return {"__dictm__": sorted(([k, _canon_json(x)] for k, x in p.items()), key=lambda kv: json.dumps(kv[0]))}
    raise Unfaithful(f"json value {p!r}")


def canon(v, model, depth=0):
    """the value of v under the model in canonical form; NotSimple / Unfaithful when it is not covered"""
    ev = lambda z: z3.simplify(model.eval(z, model_completion=True))   # noqa
    if depth > 6:
        raise NotSimple("nesting")
    if v is NONE:
        return None
    if isinstance(v, VBool):
        r = ev(v.z)
        if z3.is_true(r):
            return True
        if z3.is_false(r):
            return False
        raise Unfaithful("bool does not evaluate")
    if isinstance(v, VInt):
        r = ev(v.z)
        if not z3.is_int_value(r):
            raise Unfaithful("int does not evaluate")
        return r.as_long()
    if isinstance(v, VStr):
        r = ev(v.z)
        if not z3.is_string_value(r):
            raise Unfaithful("string does not evaluate")
        s = solve.decode_z3_string(r.as_string())
        if v.kind == "bytes":
            if any(ord(ch) > 255 for ch in s):
                raise Unfaithful("bytes value with a code point > 255")
            return {"__bytes__": [ord(ch) for ch in s]}
        return s
    if isinstance(v, VOpt):
        r = ev(v.isnone)
        if z3.is_true(r):
            return None
        if z3.is_false(r):
            return canon(v.inner, model, depth + 1)
        raise Unfaithful("optional does not evaluate")
    if isinstance(v, VUnion):
        hits = [x for c, x in v.alts if z3.is_true(ev(c))]
        if len(hits) != 1:
            raise Unfaithful("union does not evaluate")
        return canon(hits[0], model, depth + 1)
    if isinstance(v, VTuple):
        return {"__tuple__": [canon(x, model, depth + 1) for x in v.items]}
    if isinstance(v, VList):
        return [canon(x, model, depth + 1) for x in v.items]
    if isinstance(v, VSeq):
        n = ev(z3.Length(v.z))
        if not z3.is_int_value(n) or n.as_long() > 256:
            raise Unfaithful("sequence length")
        return [canon(from_z3(ev(v.z[i]), v.elem), model, depth + 1) for i in range(n.as_long())]
    if isinstance(v, VJson) or type(v).__name__ == "VJsonDict":
        return _canon_json(solve.json_value(ev(v.z), model))
    if isinstance(v, VSet):
        if v.z is None:
            return {"__setm__": []}
        try:
            keys, dflt = solve._array_true_keys(ev(v.z))
        except Exception:
            raise Unfaithful("set model is not a finite table")
        if dflt:
            raise Unfaithful("co-finite set")
        ms = [canon(from_z3(k, v.elem), model, depth + 1) for k in keys]
        return {"__setm__": sorted(ms, key=json.dumps)}
    if isinstance(v, VDict):
        items = []
        for k, x in v.d.items():
            if not (k is None or isinstance(k, (bool, int, str))):
                raise NotSimple("dict key")
            items.append([k, canon(x, model, depth + 1)])
        return {"__dictm__": sorted(items, key=lambda kv: json.dumps(kv[0]))}
    if isinstance(v, VMap):
        try:
            keys, dflt = solve._array_true_keys(ev(v.present))
        except Exception:
            raise Unfaithful("dict model is not a finite table")
        if dflt or getattr(v, "default_empty", False):
            raise Unfaithful("co-finite dict")
        items = [[canon(from_z3(k, v.kt), model, depth + 1),
                  canon(from_z3(ev(z3.Select(v.val, k)), v.vt), model, depth + 1)] for k in keys]
        return {"__dictm__": sorted(items, key=lambda kv: json.dumps(kv[0]))}
    raise NotSimple(type(v).__name__)


# ------------------------------------------------------------------ can the driver build this input?
def input_problem(x, depth=0, floats_ok=False):
    """why a concretised input (solve.concretize format) cannot be rebuilt faithfully, or None"""
    if depth > 10:
        return "nesting"
    if isinstance(x, dict):
        if "__unknown__" in x:
            return "unknown-value"
        if "__error__" in x:
            return "concretize-error"
        if "__bytes__" in x:
            return "bytes>255" if any((not isinstance(b, int)) or b > 255 or b < 0 for b in x["__bytes__"]) else None
        if "__set__" in x:
            if "members" not in x:
                return "set-not-finite"
            return next((p for p in (input_problem(m, depth + 1, floats_ok) for m in x["members"]) if p), None)
        if "__map__" in x:
            if "items" not in x:
                return "dict-not-finite"
            return next((p for p in (input_problem(m, depth + 1, floats_ok) for kv in x["items"] for m in kv) if p), None)
        if "__opaque__" in x:
            return None          # a token: the driver passes an inert object (same id -> same object)
        if "__obj__" in x:
            return next((p for p in (input_problem(m, depth + 1, floats_ok) for m in x.get("fields", {}).values()) if p), None)
        if "__tuple__" in x:
            return next((p for p in (input_problem(m, depth + 1, floats_ok) for m in x["__tuple__"]) if p), None)
        if "__unreadable__" in x or "__every_other_key__" in x:
            return "json-dict-not-finite"
        return next((p for p in (input_problem(m, depth + 1, floats_ok) for m in x.values()) if p), None)
    if isinstance(x, list):
        if len(x) >= MAX_SEQ:
            return "sequence-too-long"
        return next((p for p in (input_problem(m, depth + 1, floats_ok) for m in x) if p), None)
    if isinstance(x, float):
        return None if floats_ok else "float"           # reals are not floats (DESIGN 2.2: no rounding is an assumption); see reals_exact
    return None


def reals_exact(model, consts):
    """every rational number in the model values of the inputs is a small binary fraction: the float the driver
    passes IS that number, and sums / differences / comparisons of a few of them are exact in double arithmetic"""
    stack, seen = [], set()
    for cz in consts:
        try:
            stack.append(model.eval(cz, model_completion=True))
        except z3.Z3Exception:
            return False
    n = 0
    while stack and n < 100000:
        e = stack.pop()
        n += 1
        if e.get_id() in seen:
            continue
        seen.add(e.get_id())
        if z3.is_quantifier(e):
            stack.append(e.body())
            continue
        if z3.is_rational_value(e) and e.sort().kind() == z3.Z3_REAL_SORT:
            num, den = e.numerator_as_long(), e.denominator_as_long()
            if den & (den - 1) or den > (1 << 20) or abs(num) > (1 << 40):
                return False
            continue
        if z3.is_algebraic_value(e):
            return False
        stack.extend(e.children())
    return True


def dropped(v, conc, depth=0):
    """solve.concretize is best effort: what it left out of an object (nested collaborators beyond its depth, function-
    valued fields) would be missing natively"""
    if depth > 6:
        return None
    if isinstance(v, VOpt):
        return None if conc is None else dropped(v.inner, conc, depth + 1)
    if isinstance(v, VObj):
        if not (isinstance(conc, dict) and "__obj__" in conc):
            return "object-not-rendered"
        got = conc.get("fields", {})
        for k, x in v.fields.items():
            if k.startswith("__"):
                continue
            if isinstance(x, (VFunc, VClass, VExt, VBoundExt)):
                return "function-valued-field"
            if k not in got:
                return "nested-object-dropped"
            q = dropped(x, got[k], depth + 1)
            if q:
                return q
    return None


def _bytes_constraints(v, out, seen, depth=0):
    if depth > 8 or v is None:
        return
    if isinstance(v, VStr) and v.kind == "bytes":
        out.append(is_bytes(v.z))
    elif isinstance(v, VOpt):
        _bytes_constraints(v.inner, out, seen, depth + 1)
    elif isinstance(v, (VTuple, VList)):
        for x in v.items:
            _bytes_constraints(x, out, seen, depth + 1)
    elif isinstance(v, VDict):
        for x in v.d.values():
            _bytes_constraints(x, out, seen, depth + 1)
    elif isinstance(v, VObj) and id(v) not in seen:
        seen.add(id(v))
        for x in v.fields.values():
            _bytes_constraints(x, out, seen, depth + 1)


# ------------------------------------------------------------------ one path -> witness (in the worker)

def trace_in_scope(trace, reg, genkey=None):
    """(boundary calls of the path, None) when the native driver can reproduce the events of the path, else (None, reason):
      * a call that was replaced by the callee's contract is fine when the contract says exactly when it raises
        (`raises_exactly`): the real callee runs natively, and the determinacy check below decides whether the
        contract pins down what the path and the compared values depend on;
      * a boundary call handled by the generic handler with no declared result (recorded, returns None) is played
        by a recording stand-in; the sequence of calls and their simple arguments are compared as well;
      * anything else (library models with events, Automat inputs, Deferreds, generators, ...) is out of scope."""
    bc = []
    for e in trace:
        name = e[0]
        if name in ("call", "callret"):
            c2 = reg.contracts.get(str(e[1][0]).split("[")[0])      # "target[map]": the contract applied element-wise
            if c2 is None:
                return None, "trace:call(no contract found)"
            if c2.raises:
                return None, "trace:call(callee may raise: not exact)"
            continue
        if name == "bcall":
            cls, meth = e[1][0], e[1][1]
            h = None
            for key in (f"{cls}.{meth}", f"*.{meth}", f"{cls}.*", "*.*"):
                h = reg.boundary.get(key)
                if h is not None:
                    break
            if cls in reg.repo_classes:
                # a method the repository class inherits from a library base (TimeoutMixin.setTimeout, ...): natively
                # the real library code runs on the real object, nothing is recorded and its result is not None
                return None, "trace:bcall(inherited library method)"
            if not str(meth).isidentifier() or reg.boundary.get("set." + str(meth)) is not None:
                # an event written by a property module's own hook (`each:m` of a modelled comprehension, a method of a
                # set subclass): not a plain call on a collaborator
                return None, "trace:bcall(modelled collaborator)"
            if h is None or getattr(h, "__name__", "") != "generic_boundary":
                return None, "trace:bcall(modelled collaborator)"
            br = getattr(reg, "boundary_returns", {}) or {}
            if br.get(f"{cls}.{meth}") or br.get(f"*.{meth}"):
                return None, "trace:bcall(returns a value)"
            if len(e[1]) > 3 and e[1][3]:
                kw = e[1][3]
            else:
                kw = {}
            bc.append((meth, list(e[1][2]), dict(kw)))
            continue
        if name == "input" and reg.automat is not None and len(e[1]) >= 4:
            continue      # log entry of a dispatch through the real transition table: natively the real machine runs
        if name == "input" and reg.automat is None and getattr(reg, "input_as_boundary", False):
            # an Automat input of self recorded as an event (returns None): natively the input is replaced by a recorder
            bc.append((str(e[1][0]), list(e[1][1]), {}))
            continue
        if name == "yield" and genkey is not None and len(e[1]) >= 2 and e[1][1] == genkey:
            # the function under contract is a plain generator: natively it is run to exhaustion, its yields are
            # compared like boundary calls
            bc.append(("<yield>", [e[1][0]], {}))
            continue
        return None, "trace:" + str(name)
    return bc, None

def skip(reason):
    return {"skip": reason}


def _is_generator(fd):
    import ast
    for n in ast.walk(fd.node):
        if isinstance(n, (ast.Yield, ast.YieldFrom)):
            return True
    return False


def witness(c, reg, ctx, pr, outcome, unit):
    """called by ContractTask.run_unit (thorough) after the path was executed.  Returns None (path not in
    scope: it did not end in return / raise), {"skip": reason} or a witness dict."""
    if pr is None or outcome is None or not (outcome == "return" or outcome.startswith("raise:")):
        return None
    fd = c.fdef
    if fd is None:
        return None
    gen = _is_generator(fd)
    if gen and not (getattr(reg, "lazy_generators", False) and getattr(reg, "yield_model", None) is None):
        return skip("generator-function")       # `yield` has a modelled meaning (inlineCallbacks): not a plain generator
    if "__state" in (c.self_fields or {}) and reg.automat is None:
        return skip("automat-state")
    bcalls, why = trace_in_scope(ctx.trace, reg, fd.key if gen else None)
    if why:
        return skip(why)
    if c.target.startswith("lemma:") and c.source_text is None:
        return skip("lemma-over-a-body-fragment")       # not a function of the repository: nothing to call natively
    if c.pre_hook is not None:
        # the hook wires the pre-state beyond the declared types (identity with module-level singletons, callbacks
        # that are bound methods of self, ghost bindings): the generic driver cannot rebuild that
        return skip("pre-hook-wired-state")
    if (c.replay or {}).get("driver"):
        # the property module says the generic driver cannot rebuild this function's objects (README: Contract.replay)
        return skip("custom-replay-driver")
    if ctx.imprecise:
        return skip("imprecise-encoding")
    if getattr(ctx, "bounded", None):
        return skip("bounded-unrolling")
    if c.self_class and fd.cls is not None and c.self_class != fd.cls.name:
        return skip("self-class-override")
    types = dict(c.params)
    for f, t in (c.self_fields or {}).items():
        types["self." + f] = t
    if any("defaultdict" in str(t) or "callable" in str(t) for t in types.values()):
        return skip("input-type-not-buildable")

    if any(k.startswith("set.") for k in reg.boundary) and any("set[" in str(t) for t in types.values()):
        # the property module models extra methods of a set subclass (EmptyableSet.when_next_empty): the driver would
        # build plain sets
        return skip("input:set-subclass-modelled")

    pc = list(ctx.pc)
    in_terms = zexprs(VList([v for k, v in ctx.inputs.items() if k not in c.ghost]), [])    # ghost parameters do not exist natively
    in_consts, _ = symbols(in_terms)
    # what the comparison will look at
    result = getattr(pr, "result", None)
    selfobj = getattr(pr, "selfobj", None)
    fields = {}
    if selfobj is not None:
        for f in (c.self_fields or {}):
            if f in selfobj.fields:
                fields[f] = selfobj.fields[f]
    pc_consts, pc_ufs = symbols(pc)
    aux = sorted(n for n in pc_consts if n not in in_consts)
    need_det = bool(pc_ufs or aux) or any(e[0] == "call" for e in ctx.trace)

    s = z3.Solver()
    s.set("timeout", MODEL_TIMEOUT_MS)
    for p in pc:
        s.add(p)
    extra = []
    _bytes_constraints(VList(list(ctx.inputs.values())), extra, set())
    for e in extra:
        s.add(e)
    r = guarded_check(s, MODEL_TIMEOUT_MS)
    if r != z3.sat:
        return skip("no-model:" + ("path-infeasible" if r == z3.unsat else "unknown"))
    def build(model):
        """the witness for one model of the path condition (or {"skip": reason})"""
        for f in pc + extra:
            try:
                val = z3.simplify(model.eval(f, model_completion=True))
            except z3.Z3Exception:
                return skip("no-model:eval")
            if z3.is_false(val):
                return skip("no-model:invalid")
            if not z3.is_true(val):
                # a quantified hypothesis the model evaluation does not decide: it must hold for the model's values of
                # the symbols it mentions (uninterpreted functions stay free, so a formula over them is not accepted)
                cs, _ = symbols([f])
                q = z3.Solver()
                q.set("timeout", DET_TIMEOUT_MS)
                for cz in cs.values():
                    q.add(cz == model.eval(cz, model_completion=True))
                q.add(z3.Not(f))
                if guarded_check(q, DET_TIMEOUT_MS) != z3.unsat:
                    return skip("no-model:quantified-unverified")
        try:
            inputs = {k: solve.concretize(x, model) for k, x in ctx.inputs.items()}
        except Exception as e:
            return skip("concretize:" + type(e).__name__)
        prob = input_problem(inputs)
        if prob == "float" and reals_exact(model, in_consts.values()):
            prob = input_problem(inputs, floats_ok=True)
        prob = prob or next((q for q in (dropped(ctx.inputs[k], inputs[k]) for k in ctx.inputs if k not in c.ghost) if q), None)
        if prob:
            return skip("input:" + prob)

        bind = None
        if need_det:
            # the path condition mentions symbols that are not inputs (auxiliary constants of a model, results of
            # uninterpreted library functions): the witness is only usable if the inputs alone force this path
            bind = [cz == model.eval(cz, model_completion=True) for cz in in_consts.values()]
            why = ("uf:" + sorted(pc_ufs)[0]) if pc_ufs else ("aux:" + aux[0].split("!")[0]) if aux else "contract-call"
            choice_idx = getattr(ctx, "choice_pc", None)
            if choice_idx is None:
                return skip("not-determined:" + why)
            chosen = [pc[i] for i in sorted(choice_idx) if i < len(pc)]
            defs = [p for i, p in enumerate(pc) if i not in choice_idx]
            if chosen:
                d = z3.Solver()
                d.set("timeout", DET_TIMEOUT_MS)
                for p in defs + bind:
                    d.add(p)
                d.add(z3.Not(z3.And(chosen)))
                if guarded_check(d, DET_TIMEOUT_MS) != z3.unsat:
                    return skip("not-determined:" + why)

        def determined(v):
            """the value of v is the same in every model of the path condition that has these inputs"""
            zs = zexprs(v, [])
            cs, ufs = symbols(zs)
            if not ufs and all(n in in_consts for n in cs):
                return True
            nonlocal bind
            if bind is None:
                bind = [cz == model.eval(cz, model_completion=True) for cz in in_consts.values()]
            d = z3.Solver()
            d.set("timeout", DET_TIMEOUT_MS)
            for p in pc + bind:
                d.add(p)
            d.add(z3.Or([z != model.eval(z, model_completion=True) for z in zs]))
            return guarded_check(d, DET_TIMEOUT_MS) == z3.unsat

        expect = {"fields": {}}
        notes = []

        def take(name, v):
            try:
                cv = canon(v, model)
            except NotSimple as e:
                notes.append(f"{name}: not compared (type {e})")
                return None
            except (Unfaithful, z3.Z3Exception, Exception) as e:     # noqa
                notes.append(f"{name}: not compared ({e})")
                return None
            if not determined(v):
                notes.append(f"{name}: not compared (not determined by the inputs)")
                return None
            return {"v": cv}

        if outcome == "return":
            if result is not None:
                r_ = take("result", result)
                if r_ is not None:
                    expect["result"] = r_
        else:
            expect["exc"] = outcome.split(":", 1)[1]
        for f, v in fields.items():
            if f.startswith("__"):
                continue
            r_ = take("self." + f, v)
            if r_ is not None:
                expect["fields"][f] = r_
        if selfobj is not None and reg.automat is not None and fd.cls is not None and isinstance(selfobj.fields.get("__state"), VInt):
            mach = reg.automat.machine_of(fd.cls)
            st = take("self.__state", selfobj.fields["__state"]) if mach is not None else None
            if st is not None and 0 <= st["v"] < len(mach.states):
                expect["state"] = mach.states[st["v"]]
        expect["bcalls"] = [{"m": m, "args": [take(f"{m}(arg{i})", a) for i, a in enumerate(args)], "nkw": len(kw)}
                            for m, args, kw in bcalls]
        notes[:] = [n for n in notes if "(arg" not in n]
        machines = {}
        if reg.automat is not None:
            for cd in list(reg.repo_classes.values()):
                try:
                    m_ = reg.automat.machine_of(cd)
                except Exception:
                    m_ = None
                if m_ is not None:
                    machines[cd.name] = list(m_.states)
        return {"real_classes": sorted(reg.repo_classes), "machines": machines,
                "modelled": sorted(k for k, h in reg.boundary.items() if getattr(h, "__name__", "") != "generic_boundary"),
                "inputs_recorded": bool(reg.automat is None and getattr(reg, "input_as_boundary", False)), "decisions": [str(x) for x in unit], "outcome": "return" if outcome == "return" else "raise",
                "inputs": inputs, "expect": expect, "notes": notes, "determinacy_checked": need_det}

    first = build(s.model())
    if "skip" in first:
        return first
    # more models of the same path, pushed away from the solver's favourite corner (empty strings, zeros): a
    # defect of the encoding that only shows on longer inputs would otherwise never be exercised
    more = []
    seen_models = [s.model()]
    str_consts = [cz for cz in in_consts.values() if cz.sort().kind() == z3.Z3_SEQ_SORT]
    int_consts = [cz for cz in in_consts.values() if cz.sort().kind() == z3.Z3_INT_SORT]
    plain = [cz for cz in in_consts.values() if cz.sort().kind() in (z3.Z3_SEQ_SORT, z3.Z3_INT_SORT, z3.Z3_BOOL_SORT)]
    for attempt in range(EXTRA_WITNESSES):
        if not plain:
            break
        got = None
        pushes = [[z3.Length(cz) >= 2 + attempt for cz in str_consts] +
                  [z3.And([cz != m0.eval(cz, model_completion=True) for m0 in seen_models]) for cz in int_consts]] \
            if (str_consts or int_consts) else []
        pushes.append([z3.And([z3.Or([cz != m0.eval(cz, model_completion=True) for cz in plain]) for m0 in seen_models])])
        for cons in pushes:
            s.push()
            try:
                for c_ in cons:
                    s.add(c_)
                s.set("timeout", EXTRA_TIMEOUT_MS)
                if guarded_check(s, EXTRA_TIMEOUT_MS) == z3.sat:
                    got = s.model()
            except z3.Z3Exception:
                got = None
            finally:
                s.pop()
            if got is not None:
                break
        if got is None:
            break
        seen_models.append(got)
        w2 = build(got)
        if "skip" not in w2:
            more.append({"inputs": w2["inputs"], "expect": w2["expect"], "outcome": w2["outcome"], "notes": w2["notes"]})
    first["more"] = more
    return first


# ------------------------------------------------------------------ one task -> native run + comparison (in finish)
def strict_eq(a, b):
    if type(a) is not type(b):
        return False
    if isinstance(a, dict):
        return set(a) == set(b) and all(strict_eq(a[k], b[k]) for k in a)
    if isinstance(a, list):
        return len(a) == len(b) and all(strict_eq(x, y) for x, y in zip(a, b))
    return a == b


def exc_agrees(sym, native_name, native_mro):
    """the class the symbolic path raises is the class CPython raised (names may be module-qualified on our side)"""
    short = sym.split(".")[-1]
    if native_name in (sym, short):
        return "same"
    if sym in native_mro or short in native_mro:
        return "subclass"
    return None


def run_task(c, partials, info):
    """partials: the run_unit results of one task.  Runs all witnesses natively (one subprocess) and compares."""
    res = {"function": c.target, "paths_in_scope": 0, "paths_checked": 0, "agree": 0, "witnesses_run": 0, "skipped": {},
           "mismatches": []}
    wits = []
    for p in partials:
        x = p.get("xcheck")
        if x is None:
            continue
        res["paths_in_scope"] += 1
        if "skip" in x:
            k = x["skip"]
            res["skipped"][k] = res["skipped"].get(k, 0) + 1
            continue
        x = dict(x)
        x["path"] = npaths = len(set(w["path"] for w in wits))
        x["id"] = len(wits)
        wits.append(x)
        for m in x.get("more") or []:
            y = dict(x)
            y.update(m)
            y["id"] = len(wits)
            y["more"] = None
            wits.append(y)
    if not wits:
        return res
    job = {"target": c.target, "fields": [f for f in (c.self_fields or {}) if not f.startswith("__")],
           "types": {**{k: str(v) for k, v in c.params.items()},
                     **{"self." + k: str(v) for k, v in (c.self_fields or {}).items()}},
           "lemma": ({"source": c.source_text, "module": c.source_module} if c.source_text else None),
           "real_classes": sorted(set(k for w in wits for k in w.get("real_classes", []))),
           "inputs_recorded": any(w.get("inputs_recorded") for w in wits),
           "modelled": sorted(set(k for w in wits for k in w.get("modelled", []))),
           "machines": {k: v for w in wits for k, v in (w.get("machines") or {}).items()},
           "witnesses": [{"id": w["id"], "inputs": w["inputs"]} for w in wits]}
    native = {}
    err = None
    fd, path = tempfile.mkstemp(prefix="xcheck_", suffix=".json")
    try:
        with os.fdopen(fd, "w") as f:
            json.dump(job, f, default=str)
        try:
            p = subprocess.run([VENV_PY, os.path.join(ROOT, "replay", "driver.py"), "--xcheck", path],
                               capture_output=True, text=True, timeout=60 + 6 * len(wits), cwd=tempfile.gettempdir())
            out = p.stdout
            if p.returncode != 0 and "XCHECK " not in out:
                err = "driver:" + (p.stderr.strip().splitlines() or ["exit %d" % p.returncode])[-1][:200]
        except subprocess.TimeoutExpired as e:
            out = e.stdout.decode() if isinstance(e.stdout, bytes) else (e.stdout or "")
            err = "native-timeout"
        for line in out.splitlines():
            if line.startswith("XCHECK "):
                try:
                    d = json.loads(line[7:])
                    native[d["id"]] = d
                except Exception:
                    pass
    finally:
        try:
            os.unlink(path)
        except OSError:
            pass

    def sk(reason):
        res["skipped"][reason] = res["skipped"].get(reason, 0) + 1

    verdict = {}        # path -> "agree" | "mismatch" | skip reason (of its first witness)
    for w in wits:
        n = native.get(w["id"])
        first = w.get("more") is not None
        if n is None:
            if first:
                verdict[w["path"]] = err or "native:no-result"
            continue
        if n.get("skip"):
            if first:
                verdict[w["path"]] = "native:" + n["skip"]
            continue
        if c.source_text is not None and (n.get("exc") == "NameError" or "state-machine output method" in str(n.get("msg"))):
            # a lemma harness that calls spec functions (they only exist on our side) or an Automat output directly
            # (Automat refuses that; on our side an output under a harness is a plain method)
            if first:
                verdict[w["path"]] = "native:lemma-harness-not-runnable"
            continue
        if n.get("exc") == "AttributeError" and w["expect"].get("exc") != "AttributeError":
            # the real code read an attribute of self that the contract does not declare, the symbolic path did not: the
            # read sits in dropped syntax (status reporting, logging: `DROPPED`, reg.drop_calls) - the argument
            # expressions of a dropped call are not evaluated on our side
            import re as _re
            m_ = _re.search(r"'(\w+)' object has no attribute '(\w+)'", str(n.get("msg")))
            if m_ and m_.group(1) == c.target.split(":")[-1].split(".")[0] and m_.group(2) not in (c.self_fields or {}):
                if first:
                    verdict[w["path"]] = "native:undeclared-attribute-read(dropped syntax)"
                continue
        if not first and verdict.get(w["path"]) not in ("agree", "mismatch"):
            continue
        exp = w["expect"]
        diffs = []
        nb, sb = n.get("fake_calls") or [], exp.get("bcalls") or []
        if [x["m"] for x in nb] != [x["m"] for x in sb]:
            diffs.append({"what": "boundary-calls", "symbolic": [x["m"] for x in sb], "native": [x["m"] for x in nb]})
        else:
            for k, (xs, xn) in enumerate(zip(sb, nb)):
                if xs["nkw"] or xn.get("nkw") or len(xs["args"]) != len(xn["args"]):
                    if len(xs["args"]) + xs["nkw"] != len(xn["args"]) + xn.get("nkw", 0):
                        diffs.append({"what": f"boundary-call {k} {xs['m']}: number of arguments",
                                      "symbolic": len(xs["args"]) + xs["nkw"], "native": len(xn["args"]) + xn.get("nkw", 0)})
                    continue
                for j, (a_s, a_n) in enumerate(zip(xs["args"], xn["args"])):
                    if a_s is not None and a_n.get("ok") and not strict_eq(a_s["v"], a_n.get("v")):
                        diffs.append({"what": f"boundary-call {k} {xs['m']}: argument {j}", "symbolic": a_s["v"],
                                      "native": a_n.get("v")})
        if w["outcome"] != n["outcome"]:
            diffs.append({"what": "outcome", "symbolic": w["outcome"] + (":" + exp["exc"] if "exc" in exp else ""),
                          "native": n["outcome"] + (":" + str(n.get("exc")) + " " + str(n.get("msg", ""))[:160]
                                                    if n["outcome"] == "raise" else "")})
        elif w["outcome"] == "raise":
            how = exc_agrees(exp["exc"], n.get("exc"), n.get("mro", []))
            if how != "same":
                diffs.append({"what": "exception-class" + ("(native is a subclass)" if how == "subclass" else ""),
                              "symbolic": exp["exc"], "native": n.get("exc")})
        if not [d for d in diffs if d["what"] in ("outcome",) or d["what"].startswith("exception-class")]:
            if "result" in exp and w["outcome"] == "return":
                if n.get("result_ok") and not strict_eq(exp["result"]["v"], n.get("result")):
                    diffs.append({"what": "result", "symbolic": exp["result"]["v"], "native": n.get("result")})
            if exp.get("state") and n.get("state") and exp["state"] != n["state"]:
                diffs.append({"what": "machine state of self", "symbolic": exp["state"], "native": n["state"]})
            for f, ev in exp["fields"].items():
                nf = (n.get("fields") or {}).get(f)
                if nf is None or not nf.get("ok"):
                    continue
                if not strict_eq(ev["v"], nf.get("v")):
                    diffs.append({"what": "self." + f, "symbolic": ev["v"], "native": nf.get("v")})
        res["witnesses_run"] += 1
        if diffs:
            if verdict.get(w["path"]) != "mismatch":       # one report per path
                res["mismatches"].append({"function": c.target, "decisions": w["decisions"], "inputs": w["inputs"],
                                          "differences": diffs, "notes": w.get("notes", [])})
            verdict[w["path"]] = "mismatch"
        elif verdict.get(w["path"]) != "mismatch":
            verdict[w["path"]] = "agree"
    for v in verdict.values():
        if v in ("agree", "mismatch"):
            res["paths_checked"] += 1
            res["agree"] += 1 if v == "agree" else 0
        else:
            sk(v)
    return res


def merge(per_task):
    """coverage.xcheck of a property from the per-task results"""
    out = {"functions": 0, "functions_checked": 0, "paths_in_scope": 0, "paths_checked": 0, "agree": 0, "witnesses_run": 0,
           "skipped": {}, "mismatches": [], "per_function": []}
    for r in per_task:
        out["functions"] += 1
        out["functions_checked"] += 1 if r["paths_checked"] else 0
        for k in ("paths_in_scope", "paths_checked", "agree", "witnesses_run"):
            out[k] += r.get(k, 0)
        for k, n in r["skipped"].items():
            out["skipped"][k] = out["skipped"].get(k, 0) + n
        out["mismatches"] += r["mismatches"]
        out["per_function"].append({"function": r["function"], "in_scope": r["paths_in_scope"], "checked": r["paths_checked"],
                                    "agree": r["agree"], "skipped": sum(r["skipped"].values())})
    out["rule"] = ("one path = one explored path of a function under contract that ends in return / raise; checked = a model "
                   "of its path condition was run through the real function under /venv/bin/python and outcome kind, "
                   "exception class, returned value and final declared fields (simple types, determined by the inputs) "
                   "were compared; skipped = behaviour not a function of the inputs alone, or inputs not buildable")
    return out
