"""Mechanical extraction of the real code: reads /repo source text on every run.

Nothing here imports the repository.  A FuncDef is the ast.FunctionDef of the real
function plus where it came from; its sha256 goes into the evidence.
"""
import ast
import hashlib
import os

REPO = os.environ.get("VERIF_REPO", "/repo")
SRC = os.path.join(REPO, "src")


class FuncDef:
    def __init__(self, module, qualname, node, cls=None, text=""):
        self.module = module        # Module
        self.qualname = qualname    # "Class.method" or "func"
        self.node = node
        self.cls = cls              # ClassDef or None
        self.text = text
        self.sha = hashlib.sha256(text.encode()).hexdigest()[:16]
        self.decorators = [ast.unparse(d) for d in getattr(node, 'decorator_list', [])]

    @property
    def key(self):
        ko = getattr(self, "key_override", None)
        if ko:
            return ko
        return f"{self.module.relpath}:{self.qualname}"

    def __repr__(self):
        return f"<FuncDef {self.key}>"


class ClassDef:
    def __init__(self, module, node):
        self.module = module
        self.node = node
        self.name = node.name
        self.bases = [ast.unparse(b) for b in node.bases]
        self.methods = {}
        self.class_attrs = {}   # name -> ast expr
        self.attr_fields = []   # attrs-style field names, in order (attrib()/field())
        self.attr_defaults = {}
        self.decorators = [ast.unparse(d) for d in getattr(node, 'decorator_list', [])]

    def __repr__(self):
        return f"<ClassDef {self.module.relpath}:{self.name}>"


class Module:
    def __init__(self, relpath):
        self.relpath = relpath      # e.g. wormhole/_hints.py
        self.path = os.path.join(SRC, relpath)
        with open(self.path) as f:
            self.text = f.read()
        self.tree = ast.parse(self.text)
        self.funcs = {}
        self.classes = {}
        self.imports = {}           # local name -> ("repo", relpath, name) | ("ext", dotted)
        self.globals_ast = {}       # name -> ast expr (module-level simple assignments)
        self._scan()

    @property
    def modname(self):
        return self.relpath[:-3].replace("/", ".")

    def _seg(self, node):
        return ast.get_source_segment(self.text, node) or ""

    def _scan(self):
        pkg_parts = self.relpath.split("/")[:-1]
        for node in self.tree.body:
            if isinstance(node, (ast.FunctionDef, ast.AsyncFunctionDef)):
                self.funcs[node.name] = FuncDef(self, node.name, node, None, self._seg(node))
            elif isinstance(node, ast.ClassDef):
                cd = ClassDef(self, node)
                for sub in node.body:
                    if isinstance(sub, ast.FunctionDef):
                        cd.methods[sub.name] = FuncDef(self, f"{node.name}.{sub.name}", sub, cd, self._seg(sub))
                    elif isinstance(sub, ast.Assign) and len(sub.targets) == 1 and isinstance(sub.targets[0], ast.Name):
                        nm = sub.targets[0].id
                        cd.class_attrs[nm] = sub.value
                        if isinstance(sub.value, ast.Call):
                            fn = ast.unparse(sub.value.func)
                            if fn in ("attrib", "attr.ib", "field", "attr.field", "attrs.field"):
                                cd.attr_fields.append(nm)
                                for kw in sub.value.keywords:
                                    if kw.arg in ("default", "factory"):
                                        cd.attr_defaults[nm] = (kw.arg, kw.value)
                    elif isinstance(sub, ast.AnnAssign) and isinstance(sub.target, ast.Name):
                        nm = sub.target.id
                        if sub.value is not None:
                            cd.class_attrs[nm] = sub.value
                        if any(d.startswith(("frozen", "define", "attrs", "attr.s", "attr.define")) for d in cd.decorators):
                            cd.attr_fields.append(nm)
                            if isinstance(sub.value, ast.Call) and ast.unparse(sub.value.func) in ("field", "attrib"):
                                for kw in sub.value.keywords:
                                    if kw.arg in ("default", "factory"):
                                        cd.attr_defaults[nm] = (kw.arg, kw.value)
                            elif sub.value is not None:
                                cd.attr_defaults[nm] = ("default", sub.value)
                self.classes[node.name] = cd
            elif isinstance(node, ast.ImportFrom):
                if node.level > 0:
                    base = pkg_parts[:len(pkg_parts) - (node.level - 1)]
                    modparts = base + (node.module.split(".") if node.module else [])
                    for a in node.names:
                        self.imports[a.asname or a.name] = ("repo", modparts, a.name)
                else:
                    for a in node.names:
                        if node.module.split(".")[0] == "wormhole":
                            self.imports[a.asname or a.name] = ("repo", node.module.split("."), a.name)
                        else:
                            self.imports[a.asname or a.name] = ("ext", f"{node.module}.{a.name}")
            elif isinstance(node, ast.Import):
                for a in node.names:
                    self.imports[a.asname or a.name.split(".")[0]] = ("ext", a.name if a.asname else a.name.split(".")[0])
            elif isinstance(node, ast.Assign) and len(node.targets) == 1 and isinstance(node.targets[0], ast.Name):
                self.globals_ast[node.targets[0].id] = node.value
            elif isinstance(node, ast.Assign) and len(node.targets) == 1 and isinstance(node.targets[0], ast.Tuple):
                # a, b = x, y
                tg = node.targets[0]
                if isinstance(node.value, ast.Tuple) and len(node.value.elts) == len(tg.elts):
                    for t_, v_ in zip(tg.elts, node.value.elts):
                        if isinstance(t_, ast.Name):
                            self.globals_ast[t_.id] = v_


_modules = {}


def load_module(relpath):
    if relpath not in _modules:
        _modules[relpath] = Module(relpath)
    return _modules[relpath]


def module_from_parts(parts):
    """['wormhole', '_hints'] -> Module or None (package / missing)"""
    rel = "/".join(parts) + ".py"
    if os.path.exists(os.path.join(SRC, rel)):
        return load_module(rel)
    rel2 = "/".join(parts) + "/__init__.py"
    if os.path.exists(os.path.join(SRC, rel2)):
        return load_module(rel2)
    return None


def find_func(key):
    """'wormhole/_hints.py:parse_hint' or 'wormhole/transit.py:Connection._check_and_remove'"""
    relpath, qn = key.split(":")
    m = load_module(relpath)
    if "." in qn:
        c, f = qn.split(".", 1)
        cd = m.classes.get(c)
        if cd is None or f not in cd.methods:
            return None
        return cd.methods[f]
    return m.funcs.get(qn)


def find_class(relpath, name):
    m = load_module(relpath)
    return m.classes.get(name)


def reset():
    _modules.clear()
